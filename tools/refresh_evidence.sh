#!/bin/bash
# regenerate every evidence file from the unchanged tree (quick tier, VERIF_SEED or 1)
cd "$(dirname "$0")/.."
if [ -n "$(git -C /repo status --porcelain)" ]; then echo "refusing: /repo working tree is dirty"; exit 2; fi
rc=0
for i in 01 02 03 04 05 06 07 08 09 10 11 12 13 14 15 16 17 18; do
  ./check C$i quick | grep -E "^(OK|VIOLATION|INCONCLUSIVE|KNOWN)" | cut -c1-160 || rc=1
done
exit $rc
