#!/usr/bin/env python3
"""Thorough-tier coverage-guided campaign (E3) for one property.
usage: fuzz_campaign.py <ID> <seed> [runs_per_job] [jobs]
Builds the libFuzzer targets against /repo's working tree, runs fixed-work campaigns from a
generated seed corpus in a scratch directory, re-validates every saved input through
`mhv replay`, merges the counters into evidence/<ID>.json and prints VIOLATION lines.
exit 0 nothing found, 1 violation (validated), 2 inconclusive (build failed / crash not reproducible)."""
import json, os, shutil, subprocess, sys, time, glob
ROOT = os.path.dirname(os.path.dirname(os.path.abspath(__file__)))
H = os.path.join(ROOT, 'harness')
TARGETS = {'C01': ['conn'], 'C02': ['conn'], 'C03': ['conn', 'oneshot', 'headers'], 'C04': ['conn'], 'C11': ['conn'],
           'C13': ['conn'], 'C14': ['oneshot'], 'C15': ['headers']}
def main():
    pid = sys.argv[1]; seed = int(sys.argv[2])
    runs = int(sys.argv[3]) if len(sys.argv) > 3 else 150000
    jobs = int(sys.argv[4]) if len(sys.argv) > 4 else 16
    mhv = os.path.join(H, 'target/release/mhv')
    # every PBT sub of the property is decoded from choice bytes, so each is also a libFuzzer
    # entry point through the generic target fuzz_any (MHV_FUZZ_SUB=<ID>:<sub>)
    anysubs = []
    r = subprocess.run([mhv, 'fuzzsubs', pid], capture_output=True, text=True)
    if r.returncode == 0:
        for l in r.stdout.split('\n'):
            if l.strip():
                a, b = l.split(); anysubs.append((a, int(b)))
    # C18/C10 histories are too slow under libFuzzer (slow-unit/timeout artifacts that do not
    # reproduce made the campaign inconclusive): no coverage-guided part for them
    if pid in ('C18', 'C10'):
        anysubs = []
    if pid not in TARGETS and not anysubs:
        return 0
    # fixed work per job; server-world cases cost 5-45 ms each under ASan (13 sockets, settle loops),
    # connection and pure cases well under 1 ms
    slow = {'C10': 3000, 'C18': 1500, 'C09': 8000, 'C07': 12000, 'C08': 10000}
    # (a C18 'kill' case replays its history once per kill position: evolved inputs cost ~250 ms)
    slow_sub = {('C18', 'kill'): 1000}
    def runs_for(sub):
        if 'MHV_FUZZ_RUNS_ANY' in os.environ:
            return int(os.environ['MHV_FUZZ_RUNS_ANY'])
        if sub == 'server':
            return 8000
        return slow_sub.get((pid, sub), slow.get(pid, 100000))
    env = dict(os.environ, CARGO_NET_OFFLINE='true')
    t0 = time.time()
    b = subprocess.run('cargo +nightly fuzz build -O', shell=True, cwd=H, env=env, capture_output=True, text=True)
    if b.returncode != 0:
        print('note: fuzz targets did not build; campaign skipped', file=sys.stderr)
        print(b.stderr[-800:], file=sys.stderr)
        return merge(pid, {'skipped': 'fuzz build failed'}, 0)
    bindir = os.path.join(H, 'fuzz/target/x86_64-unknown-linux-gnu/release')
    scratch = os.path.join(ROOT, '.scratch', 'fuzz-%s-%d' % (pid, os.getpid()))
    shutil.rmtree(scratch, ignore_errors=True); os.makedirs(scratch)
    targets = TARGETS.get(pid, [])
    # half of the jobs (all of them when there is no raw target) go to the choice-byte subs
    jobs_any = 0 if not anysubs else (jobs if not targets else jobs // 2)
    per = max(1, (jobs - jobs_any) // len(targets)) if targets else 0
    procs = []
    subsel = {}
    for k in range(jobs_any):
        sub, max_len = anysubs[k % len(anysubs)]
        t = 'any'; j = k
        corpus0 = os.path.join(scratch, 'seed-any-' + sub)
        if not os.path.isdir(corpus0):
            subprocess.run([mhv, 'corpus-any', str(max_len), corpus0], capture_output=True)
        cdir = os.path.join(scratch, 'corpus-any-%d' % j); shutil.copytree(corpus0, cdir)
        stats = os.path.join(scratch, 'stats-any-%d.json' % j)
        e = dict(env, MHV_FUZZ_SUB='%s:%s' % (pid, sub), MHV_FUZZ_STATS=stats, MHV_ROOT=ROOT, MHV_SCRATCH=os.path.join(scratch, 'ws-%d' % j))
        cmd = [os.path.join(bindir, 'fuzz_any'), cdir, '-runs=%d' % runs_for(sub), '-seed=%d' % (seed * 1000 + 500 + j), '-len_control=0',
               '-max_len=%d' % max_len, '-artifact_prefix=' + os.path.join(scratch, 'crash-any-%d-' % j),
               '-print_final_stats=0', '-verbosity=0', '-timeout=120', '-rss_limit_mb=4096']
        log = open(os.path.join(scratch, 'log-any-%d.txt' % j), 'w')
        subsel['crash-any-%d-' % j] = sub
        procs.append((t, j, subprocess.Popen(cmd, env=e, stdout=log, stderr=log), stats))
    for t in targets:
        corpus0 = os.path.join(scratch, 'seed-' + t)
        subprocess.run([os.path.join(H, 'target/release/mhv'), 'corpus', t, corpus0], capture_output=True)
        for j in range(per):
            cdir = os.path.join(scratch, 'corpus-%s-%d' % (t, j)); shutil.copytree(corpus0, cdir)
            stats = os.path.join(scratch, 'stats-%s-%d.json' % (t, j))
            e = dict(env, MHV_ORACLES=pid, MHV_FUZZ_STATS=stats, MHV_ROOT=ROOT)
            cmd = [os.path.join(bindir, 'fuzz_' + t), cdir, '-runs=%d' % runs, '-seed=%d' % (seed * 1000 + j + 1), '-len_control=0',
                   '-max_len=4096', '-dict=' + os.path.join(H, 'fuzz/dict.txt'), '-artifact_prefix=' + os.path.join(scratch, 'crash-%s-%d-' % (t, j)),
                   '-print_final_stats=0', '-verbosity=0', '-timeout=60']
            log = open(os.path.join(scratch, 'log-%s-%d.txt' % (t, j)), 'w')
            procs.append((t, j, subprocess.Popen(cmd, env=e, stdout=log, stderr=log), stats))
    cases = nontrivial = 0
    for t, j, p, stats in procs:
        p.wait()
        try:
            s = json.load(open(stats)); cases += s['cases']; nontrivial += s['nontrivial']
        except Exception:
            pass
    arts = sorted(glob.glob(os.path.join(scratch, 'crash-*')))
    rc = 0; confirmed = 0; unconfirmed = 0
    os.makedirs(os.path.join(ROOT, 'replays'), exist_ok=True)
    seen = set()
    for a in arts:
        data = open(a, 'rb').read()
        if data in seen or len(seen) >= 12:
            continue
        seen.add(data)
        rp = os.path.join(ROOT, 'replays', '%s-fuzz-%s.json' % (pid, os.path.basename(a)[-16:]))
        sub_of = next((v for k, v in subsel.items() if os.path.basename(a).startswith(k)), 'raw')
        json.dump({'property': pid, 'sub': sub_of, 'smallbuf': False, 'input': {'bytes': data.hex()}, 'sig': 'fuzz', 'msg': 'input saved by libFuzzer'}, open(rp, 'w'))
        r = subprocess.run([os.path.join(H, 'target/release/mhv'), 'replay', rp], capture_output=True, text=True, env=dict(env, MHV_ROOT=ROOT))
        if r.returncode == 1:
            confirmed += 1; rc = 1
            print('VIOLATION property=%s replay=%s' % (pid, rp))
            for l in r.stdout.splitlines():
                if l.startswith('  ['): print(l[:400]); break
        else:
            unconfirmed += 1
    if rc == 0 and unconfirmed:
        rc = 2
        print('INCONCLUSIVE property=%s %d input(s) saved by libFuzzer do not reproduce through the optimised replay' % (pid, unconfirmed))
    info = {'targets': ['fuzz_' + t for t in targets] + (['fuzz_any:' + a for a, _ in anysubs] if jobs_any else []), 'jobs': len(procs), 'runs_per_job': runs, 'runs_per_choice_byte_job': {a: runs_for(a) for a, _ in anysubs} if jobs_any else {}, 'executions': cases, 'nontrivial_executions': nontrivial,
            'saved_inputs': len(arts), 'confirmed_violations': confirmed, 'wall_s': round(time.time() - t0, 1),
            'note': 'libFuzzer -seed pins a campaign only approximately; the saved input is the reproducible unit'}
    shutil.rmtree(scratch, ignore_errors=True)
    return merge(pid, info, rc)
def merge(pid, info, rc):
    p = os.path.join(ROOT, 'evidence', pid + '.json')
    try:
        ev = json.load(open(p))
        ev['coverage']['fuzz_campaign'] = info
        if 'executions' in info:
            ev['coverage']['evaluations'] += info['executions']
        if rc == 1:
            ev['violations'] = ev.get('violations', 0) + info.get('confirmed_violations', 1)
        json.dump(ev, open(p, 'w'), indent=2)
    except Exception as e:
        print('note: evidence not updated:', e, file=sys.stderr)
    return rc
sys.exit(main())
