#!/bin/bash
# run every quick check on the unchanged tree under several seeds; print anything that is not OK
cd "$(dirname "$0")/.."
seeds="${*:-1 2 3 4 5}"
bad=0
for s in $seeds; do
  for i in 01 02 03 04 05 06 07 08 09 10 11 12 13 14 15 16 17 18; do
    out=$(VERIF_SEED=$s ./check C$i quick 2>&1); rc=$?
    if [ $rc -ne 0 ]; then bad=1; echo "seed=$s C$i rc=$rc"; echo "$out" | head -12 | cut -c1-300; fi
  done
  echo "seed $s done"
done
exit $bad
