// C12 demo 2: descriptors must reach the request they arrived with (once, in order, and be
// closed with it) no matter which other ancillary data the kernel delivers next to them.
//
// When SO_PASSCRED is enabled on the receiving socket (a perfectly legal setting, e.g. for
// peer authentication, which can also be switched on in the middle of a connection's life),
// every `recvmsg` reports an SCM_CREDENTIALS control message *before* the SCM_RIGHTS one.

use std::fs::File;
use std::io::{Read, Write};
use std::os::unix::io::{AsRawFd, FromRawFd, RawFd};
use std::os::unix::net::UnixStream;

use micro_http::HttpConnection;
use vmm_sys_util::sock_ctrl_msg::ScmSocket;

/// Returns (read end, write end) of a non-blocking pipe.
fn pipe() -> (File, File) {
    let mut p: [RawFd; 2] = [-1; 2];
    // SAFETY: plain pipe2 call with a valid out array.
    let rc = unsafe { libc::pipe2(p.as_mut_ptr(), libc::O_NONBLOCK | libc::O_CLOEXEC) };
    assert_eq!(rc, 0, "pipe2 failed");
    // SAFETY: both descriptors are fresh and owned by nobody else.
    unsafe { (File::from_raw_fd(p[0]), File::from_raw_fd(p[1])) }
}

/// `true` when every write end of the pipe is closed (read reports end of file),
/// `false` when some write end is still open somewhere (read would block).
fn all_writers_closed(read_end: &mut File) -> bool {
    let mut b = [0u8; 8];
    match read_end.read(&mut b) {
        Ok(0) => true,
        Ok(n) => panic!("unexpected {} bytes in the pipe", n),
        Err(e) if e.kind() == std::io::ErrorKind::WouldBlock => false,
        Err(e) => panic!("unexpected pipe error {}", e),
    }
}

fn enable_passcred(fd: RawFd) {
    let one: libc::c_int = 1;
    // SAFETY: valid descriptor, valid pointer to an int of the announced size.
    let rc = unsafe {
        libc::setsockopt(
            fd,
            libc::SOL_SOCKET,
            libc::SO_PASSCRED,
            &one as *const libc::c_int as *const libc::c_void,
            std::mem::size_of::<libc::c_int>() as libc::socklen_t,
        )
    };
    assert_eq!(rc, 0, "setsockopt(SO_PASSCRED) failed");
}

#[test]
fn descriptors_are_delivered_when_credentials_are_passed_too() {
    let (sender, receiver) = UnixStream::pair().unwrap();
    receiver.set_nonblocking(true).unwrap();
    let receiver_fd = receiver.as_raw_fd();
    let mut conn = HttpConnection::new(receiver);

    // Request 1: plain socket, two descriptors.
    let (mut r1, w1) = pipe();
    let (mut r2, w2) = pipe();
    sender
        .send_with_fds(
            &[b"GET /one HTTP/1.1\r\n\r\n".as_ref()],
            &[w1.as_raw_fd(), w2.as_raw_fd()],
        )
        .unwrap();
    drop(w1);
    drop(w2);
    conn.try_read().unwrap();
    let mut req1 = conn.pop_parsed_request().expect("request 1");
    assert_eq!(req1.files.len(), 2);
    req1.files[0].write_all(b"a").unwrap();
    req1.files[1].write_all(b"b").unwrap();
    let mut b = [0u8; 8];
    assert_eq!(r1.read(&mut b).unwrap(), 1);
    assert_eq!(b[0], b'a');
    assert_eq!(r2.read(&mut b).unwrap(), 1);
    assert_eq!(b[0], b'b');
    drop(req1);
    assert!(all_writers_closed(&mut r1));
    assert!(all_writers_closed(&mut r2));

    // The application switches on credential passing on the live connection.
    enable_passcred(receiver_fd);

    // Request 2: same shape, split over two reads, descriptors with the first part.
    let (mut r3, w3) = pipe();
    let (mut r4, w4) = pipe();
    sender
        .send_with_fds(
            &[b"GET /two HTTP/1.1\r\n".as_ref()],
            &[w3.as_raw_fd(), w4.as_raw_fd()],
        )
        .unwrap();
    drop(w3);
    drop(w4);
    conn.try_read().unwrap();
    assert!(conn.pop_parsed_request().is_none());
    sender.send_with_fds(&[b"\r\n".as_ref()], &[]).unwrap();
    conn.try_read().unwrap();
    let mut req2 = conn.pop_parsed_request().expect("request 2");
    assert_eq!(
        req2.files.len(),
        2,
        "the descriptors sent with request 2 must be handed to it"
    );
    req2.files[0].write_all(b"c").unwrap();
    req2.files[1].write_all(b"d").unwrap();
    assert_eq!(r3.read(&mut b).unwrap(), 1);
    assert_eq!(b[0], b'c');
    assert_eq!(r4.read(&mut b).unwrap(), 1);
    assert_eq!(b[0], b'd');

    drop(req2);
    drop(conn);
    drop(sender);
    assert!(all_writers_closed(&mut r3));
    assert!(all_writers_closed(&mut r4));
}

#[test]
fn pending_descriptors_are_closed_with_the_connection_when_credentials_are_passed_too() {
    let (sender, receiver) = UnixStream::pair().unwrap();
    receiver.set_nonblocking(true).unwrap();
    enable_passcred(receiver.as_raw_fd());
    let mut conn = HttpConnection::new(receiver);

    let (mut r, w) = pipe();
    sender
        .send_with_fds(&[b"GET /x HTTP/1.1\r\n".as_ref()], &[w.as_raw_fd()])
        .unwrap();
    drop(w);
    conn.try_read().unwrap();
    assert!(conn.pop_parsed_request().is_none());
    assert!(!all_writers_closed(&mut r));

    drop(conn);
    drop(sender);
    assert!(
        all_writers_closed(&mut r),
        "the descriptor was leaked: it is still open after the connection was dropped"
    );
}
