#![no_main]
// input = [terminator selector] + LF-separated header lines; C15 three-way agreement, C03
use libfuzzer_sys::fuzz_target;
fuzz_target!(|data: &[u8]| mhv::fuzzrt::run("headers", data));
