#![no_main]
// input = one byte slice; C14 differential (one-shot vs connection), C03 entry points
use libfuzzer_sys::fuzz_target;
fuzz_target!(|data: &[u8]| mhv::fuzzrt::run("oneshot", data));
