#![no_main]
// input = [limit selector][n][n schedule bytes][stream]; oracles armed by MHV_ORACLES
// (C01: REF prefix + cross-schedule, C02: REF, C03: no panic / call counters, C04: size
// verdicts, C11: fresh-connection differential, C13: interim responses)
use libfuzzer_sys::fuzz_target;
fuzz_target!(|data: &[u8]| mhv::fuzzrt::run("conn", data));
