#![no_main]
// input = the choice bytes of the PBT sub named by MHV_FUZZ_SUB=<ID>:<sub> (histories, builder
// call sequences, server worlds); the sub's own oracle decides, a breach aborts
use libfuzzer_sys::fuzz_target;
fuzz_target!(|data: &[u8]| mhv::fuzzrt::run_any(data));
