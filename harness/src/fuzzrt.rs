//! Runtime of the coverage-guided fuzz targets (E3): arms the oracles named in
//! MHV_ORACLES, counts cases, and on a breach prints one line and aborts so that
//! libFuzzer saves the input. `./check` re-validates every saved input through
//! `mhv replay` (optimised build, no sanitizer) before it reports a violation.

use std::sync::atomic::{AtomicU64, Ordering};
use std::sync::Once;

use crate::engine::{Input, Obs, SubFn};
use crate::props::raw::*;

static INIT: Once = Once::new();
static CASES: AtomicU64 = AtomicU64::new(0);
static NONTRIVIAL: AtomicU64 = AtomicU64::new(0);

extern "C" fn dump_stats() {
    if let Ok(p) = std::env::var("MHV_FUZZ_STATS") {
        let _ = std::fs::write(p, format!("{{\"cases\": {}, \"nontrivial\": {}}}", CASES.load(Ordering::Relaxed), NONTRIVIAL.load(Ordering::Relaxed)));
    }
}

fn armed(id: &str) -> bool {
    match std::env::var("MHV_ORACLES") {
        Ok(v) if !v.is_empty() => v.split(',').any(|x| x == id),
        _ => true,
    }
}

pub fn subs_for(target: &str) -> Vec<(&'static str, &'static str, SubFn)> {
    let mut v: Vec<(&'static str, &'static str, SubFn)> = Vec::new();
    match target {
        "conn" => {
            if armed("C01") {
                v.push(("C01", "raw", c01_raw));
            }
            if armed("C02") {
                v.push(("C02", "raw", c02_raw));
            }
            if armed("C03") {
                v.push(("C03", "raw", c03_raw));
            }
            if armed("C04") {
                v.push(("C04", "raw", c04_raw));
            }
            if armed("C11") {
                v.push(("C11", "raw", c11_raw));
            }
            if armed("C13") {
                v.push(("C13", "raw", c13_raw));
            }
        }
        "oneshot" => {
            if armed("C14") {
                v.push(("C14", "raw", c14_raw));
            }
            if armed("C03") {
                v.push(("C03", "raw", c03_raw));
            }
        }
        _ => {
            if armed("C15") {
                v.push(("C15", "raw", c15_raw));
            }
            if armed("C03") {
                v.push(("C03", "raw", c03_raw));
            }
        }
    }
    v
}

pub fn run(target: &str, data: &[u8]) {
    INIT.call_once(|| {
        // panics inside the library are caught and judged by the oracles
        std::panic::set_hook(Box::new(|_| {}));
        unsafe { libc::atexit(dump_stats) };
    });
    let subs = subs_for(target);
    let input = Input::Bytes(data.to_vec());
    CASES.fetch_add(1, Ordering::Relaxed);
    let mut nt = false;
    for (prop, sub, f) in subs {
        let mut obs = Obs::default();
        let r = std::panic::catch_unwind(std::panic::AssertUnwindSafe(|| f(&input, &mut obs)));
        nt |= obs.nontrivial;
        let fail = match r {
            Ok(Ok(())) => None,
            Ok(Err(fl)) => Some(fl.sig + ": " + &fl.msg),
            Err(p) => Some(format!("harness-panic: {}", crate::connrun::panic_msg(p))),
        };
        if let Some(m) = fail {
            eprintln!("MHV-VIOLATION property={} sub={} {}", prop, sub, m.lines().next().unwrap_or(""));
            dump_stats();
            std::process::abort();
        }
    }
    if nt {
        NONTRIVIAL.fetch_add(1, Ordering::Relaxed);
    }
}

/// Generic target (`fuzz_any`): the input is the choice-byte string of one PBT sub, selected by
/// MHV_FUZZ_SUB=<ID>:<sub>. Every history / builder-call / world sub is decoded from choice
/// bytes (DESIGN 10.2), so coverage guidance works on the decoded operations directly.
pub fn run_any(data: &[u8]) {
    static SEL: std::sync::OnceLock<(String, String, SubFn)> = std::sync::OnceLock::new();
    let (prop, sub, f) = SEL.get_or_init(|| {
        let spec = std::env::var("MHV_FUZZ_SUB").unwrap_or_default();
        let mut it = spec.splitn(2, ':');
        let (p, s) = (it.next().unwrap_or("").to_string(), it.next().unwrap_or("").to_string());
        let props = crate::props::all();
        let f = props.iter().find(|d| d.id == p).and_then(|d| d.sub(&s));
        let f = match f {
            Some(f) => f,
            None => {
                eprintln!("MHV_FUZZ_SUB={:?} names no sub", spec);
                std::process::exit(2);
            }
        };
        crate::engine::silence_panics();
        crate::engine::set_current_prop(&p);
        // libFuzzer's main is not Rust's: SIGPIPE still has its default disposition here
        unsafe { libc::signal(libc::SIGPIPE, libc::SIG_IGN) };
        unsafe { libc::atexit(dump_stats) };
        if p == "C12" {
            // as in the PBT workers: descriptor number 0 is free for the cases
            unsafe { libc::close(0) };
        }
        (p, s, f)
    });
    let input = Input::Bytes(data.to_vec());
    CASES.fetch_add(1, Ordering::Relaxed);
    let mut obs = Obs::default();
    let r = std::panic::catch_unwind(std::panic::AssertUnwindSafe(|| f(&input, &mut obs)));
    let fail = match r {
        Ok(Ok(())) => None,
        Ok(Err(fl)) => Some(fl),
        Err(pn) => Some(crate::engine::uncaught_panic(prop, pn)),
    };
    if obs.nontrivial || obs.extra_nontrivial > 0 {
        NONTRIVIAL.fetch_add(1, Ordering::Relaxed);
    }
    if let Some(fl) = fail {
        eprintln!("MHV-VIOLATION property={} sub={} {}: {}", prop, sub, fl.sig, fl.msg.lines().next().unwrap_or(""));
        dump_stats();
        std::process::abort();
    }
}

/// seed corpus for `fuzz_any`: choice-byte strings of graded lengths (the empty string decodes to
/// the simplest case of every sub)
pub fn write_corpus_any(max_len: usize, dir: &std::path::Path) -> usize {
    use crate::src::filler;
    let _ = std::fs::create_dir_all(dir);
    let mut n = 0;
    for i in 0..96u32 {
        let len = match i % 6 {
            0 => (i as usize) % 9,
            1 => 16 + (i as usize) % 17,
            2 => max_len / 8,
            3 => max_len / 3,
            4 => max_len * 2 / 3,
            _ => max_len,
        };
        let data = filler((i % 3) as usize, (i * 37 + 11) as u8, len.min(max_len));
        let _ = std::fs::write(dir.join(format!("seed-{:03}", i)), &data);
        n += 1;
    }
    n
}

/// deterministic seed corpus for a target, written as plain files
pub fn write_corpus(target: &str, dir: &std::path::Path) -> usize {
    use crate::gen::*;
    use crate::src::{filler, Src};
    let _ = std::fs::create_dir_all(dir);
    let mut n = 0;
    for i in 0..160u32 {
        let seed: Vec<u8> = filler(1, (i & 0xff) as u8, 8).into_iter().chain(filler(1, (i >> 3) as u8 ^ 0xa5, 400)).collect();
        let mut s = Src::new(&seed);
        let mut cfg = GenCfg::new(crate::buf_size(), crate::DEFAULT_LIMIT);
        cfg.corrupt = if i % 2 == 0 { 0 } else { 20 };
        cfg.max_body = 1500;
        cfg.max_reqs = 3;
        let data: Vec<u8> = match target {
            "conn" => {
                let (stream, _) = gen_stream(&mut s, &cfg);
                let mut v = vec![(i % 14) as u8, (i % 9) as u8];
                v.extend(filler(1, i as u8, (i % 9) as usize));
                v.extend(stream);
                v
            }
            "oneshot" => {
                let mut notes = Notes::default();
                let mut v = Vec::new();
                gen_request(&mut s, &cfg, &mut notes, &mut v);
                v
            }
            _ => {
                let mut v = vec![(i % 3) as u8];
                let mut labels = Vec::new();
                for _ in 0..(1 + i % 5) {
                    v.extend(crate::props::pure::c15_line(&mut s, &mut labels));
                    v.push(b'\n');
                }
                v
            }
        };
        if data.len() <= 4096 {
            let _ = std::fs::write(dir.join(format!("seed-{:03}", i)), &data);
            n += 1;
        }
    }
    n
}
