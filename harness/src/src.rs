//! `Src`: a finite byte string read as a sequence of choices. Every generated case in this
//! harness is a pure function of such a byte string, so the same decoder serves proptest
//! (random `Vec<u8>`, shrunk by deleting/lowering bytes), libFuzzer (mutated bytes) and
//! replay files. All mappings are monotone (byte 0 = simplest choice) so shrinking the
//! bytes shrinks the case. When the bytes run out every draw returns 0.

pub struct Src<'a> {
    data: &'a [u8],
    pos: usize,
}

impl<'a> Src<'a> {
    pub fn new(data: &'a [u8]) -> Self {
        Src { data, pos: 0 }
    }
    pub fn exhausted(&self) -> bool {
        self.pos >= self.data.len()
    }
    pub fn remaining(&self) -> usize {
        self.data.len().saturating_sub(self.pos)
    }
    pub fn u8(&mut self) -> u8 {
        let b = self.data.get(self.pos).copied().unwrap_or(0);
        self.pos += 1;
        b
    }
    pub fn u16(&mut self) -> u16 {
        // high byte first so that lowering the first byte lowers the value most
        ((self.u8() as u16) << 8) | self.u8() as u16
    }
    pub fn u32(&mut self) -> u32 {
        ((self.u16() as u32) << 16) | self.u16() as u32
    }
    /// value in 0..n (n >= 1), monotone in the drawn bytes
    pub fn below(&mut self, n: usize) -> usize {
        if n <= 1 {
            return 0;
        }
        if n <= 256 {
            (self.u8() as usize * n) >> 8
        } else if n <= 65536 {
            (self.u16() as usize * n) >> 16
        } else {
            ((self.u32() as u64 * n as u64) >> 32) as usize
        }
    }
    /// value in lo..=hi
    pub fn range(&mut self, lo: usize, hi: usize) -> usize {
        lo + self.below(hi - lo + 1)
    }
    /// true with probability about num/256; false is the simple value
    pub fn chance(&mut self, num: u32) -> bool {
        let b = self.u8() as u32;
        b >= 256 - num.min(256)
    }
    pub fn pick<'b, T>(&mut self, xs: &'b [T]) -> &'b T {
        &xs[self.below(xs.len())]
    }
    /// weighted choice; returns the index. Index 0 should be the simplest alternative.
    pub fn weighted(&mut self, ws: &[u32]) -> usize {
        let total: u32 = ws.iter().sum();
        let mut x = self.below(total as usize) as u32;
        for (i, w) in ws.iter().enumerate() {
            if x < *w {
                return i;
            }
            x -= *w;
        }
        ws.len() - 1
    }
    pub fn bytes(&mut self, n: usize) -> Vec<u8> {
        (0..n).map(|_| self.u8()).collect()
    }
    /// take all remaining bytes
    pub fn rest(&mut self) -> &'a [u8] {
        let r = if self.pos < self.data.len() { &self.data[self.pos..] } else { &[][..] };
        self.pos = self.data.len();
        r
    }
}

/// Deterministic filler: `n` bytes determined by (kind, seed). Not an RNG with hidden
/// state: a pure function of drawn values, used so that a 64 KiB body costs 3 choice bytes.
pub fn filler(kind: usize, seed: u8, n: usize) -> Vec<u8> {
    let mut v = Vec::with_capacity(n);
    match kind {
        0 => {
            // printable ascii cycle
            for i in 0..n {
                v.push(b'a' + ((i + seed as usize) % 26) as u8);
            }
        }
        1 => {
            // all byte values, incl. NUL, CR, LF, 0x80..0xff
            let mut x = seed as u32 | 0x100;
            for _ in 0..n {
                x = x.wrapping_mul(1103515245).wrapping_add(12345);
                v.push((x >> 16) as u8);
            }
        }
        2 => {
            // CRLF-rich
            let pat = b"\r\n\r\nGET / HTTP/1.1\r\n\r\nHTTP/1.1 200 \r\nContent-Length: 5\r\n\r\n";
            for i in 0..n {
                v.push(pat[(i + seed as usize) % pat.len()]);
            }
        }
        3 => v.resize(n, 0),
        _ => {
            for i in 0..n {
                v.push(if (i + seed as usize) % 7 == 0 { b'\r' } else { b'\n' });
            }
        }
    }
    v
}

pub fn esc(b: &[u8]) -> String {
    let mut s = String::new();
    let mut i = 0;
    let mut shown = 0;
    while i < b.len() {
        if shown > 700 {
            s.push_str(&format!("...(+{} bytes)", b.len() - i));
            break;
        }
        let c = b[i];
        let mut j = i;
        while j < b.len() && b[j] == c {
            j += 1;
        }
        let run = j - i;
        let one = match c {
            b'\r' => "\\r".to_string(),
            b'\n' => "\\n".to_string(),
            b'\\' => "\\\\".to_string(),
            0x20..=0x7e => (c as char).to_string(),
            _ => format!("\\x{:02x}", c),
        };
        if run > 8 {
            s.push_str(&format!("{}{{x{}}}", one, run));
            shown += 8;
            i = j;
        } else {
            s.push_str(&one);
            shown += 1;
            i += 1;
        }
    }
    s
}

pub fn hex(b: &[u8]) -> String {
    let mut s = String::with_capacity(b.len() * 2);
    for c in b {
        s.push_str(&format!("{:02x}", c));
    }
    s
}

pub fn unhex(s: &str) -> Option<Vec<u8>> {
    let s = s.as_bytes();
    if s.len() % 2 != 0 {
        return None;
    }
    let mut v = Vec::with_capacity(s.len() / 2);
    for i in (0..s.len()).step_by(2) {
        let h = (s[i] as char).to_digit(16)?;
        let l = (s[i + 1] as char).to_digit(16)?;
        v.push((h * 16 + l) as u8);
    }
    Some(v)
}

pub fn fnv64(b: &[u8]) -> u64 {
    let mut h: u64 = 0xcbf29ce484222325;
    for &c in b {
        h ^= c as u64;
        h = h.wrapping_mul(0x100000001b3);
    }
    h
}
