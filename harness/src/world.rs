//! WH: server world harness. A real `HttpServer` on a fresh AF_UNIX path, scripted
//! non-blocking clients and a scripted application, all in one thread: the harness owns
//! the whole schedule (poll(2) with timeout 0 before every `requests()` call).
//!
//! Soundness-critical details (DESIGN 2.4): client sockets are created before the history
//! starts and "closed" by dup2-ing /dev/null over their number, so descriptor numbers the
//! server releases are reused by the server's next accept, as with out-of-process clients.

use std::collections::{BTreeSet, VecDeque};
use std::os::unix::io::{AsRawFd, RawFd};
use std::path::PathBuf;
use std::sync::atomic::{AtomicU64, Ordering};

use micro_http::{Body, HttpServer, Response, ServerError, ServerRequest};
use vmm_sys_util::eventfd::{EventFd, EFD_NONBLOCK};

use crate::connrun::{delivered_of, diff_delivered, Delivered};
use crate::refparse::{ref_parse, End, RefRequest};
use crate::respread::*;
use crate::src::{esc, filler};

static SOCK_COUNTER: AtomicU64 = AtomicU64::new(0);

thread_local! {
    /// order of add_kill_switch and start_server for worlds created from now on (C18 varies it)
    pub static KILL_AFTER_START: std::cell::Cell<bool> = std::cell::Cell::new(false);
    /// construct the server with `HttpServer::new_from_fd` on a listener bound by the harness
    pub static SERVER_FROM_FD: std::cell::Cell<bool> = std::cell::Cell::new(false);
    /// signal the kill switch before it is handed to the server (one-shot)
    pub static KILL_PRESIGNALLED: std::cell::Cell<bool> = std::cell::Cell::new(false);
    /// the EventFd handed to `add_kill_switch` is descriptor number 0 (a process started with
    /// stdin closed gets that number for the first descriptor it opens)
    pub static KILL_ON_FD0: std::cell::Cell<bool> = std::cell::Cell::new(false);
    /// the EventFd is created without EFD_NONBLOCK (the server is only ever asked to watch it)
    pub static KILL_BLOCKING: std::cell::Cell<bool> = std::cell::Cell::new(false);
}

fn kill_flags() -> i32 {
    if KILL_BLOCKING.with(|c| c.get()) {
        0
    } else {
        EFD_NONBLOCK
    }
}

/// draw the construction variant of the next world(s) from the case bytes
pub fn world_variant(s: &mut crate::src::Src) {
    let from_fd = s.chance(100);
    SERVER_FROM_FD.with(|c| c.set(from_fd));
}

pub fn scratch_dir() -> PathBuf {
    let d = match std::env::var("MHV_SCRATCH") {
        Ok(p) => PathBuf::from(p),
        Err(_) => crate::engine::verif_root().join(".scratch").join(format!("p{}", std::process::id())),
    };
    let _ = std::fs::create_dir_all(&d);
    d
}

#[derive(Clone, Copy, Debug, PartialEq, Eq)]
pub enum CState {
    Unconnected,
    Connected,
    Closed,
}

#[derive(Clone, Debug)]
pub struct Composed {
    pub j: usize,
    pub bytes: Vec<u8>,
    pub rref: Option<RefRequest>, // REF parse of the request alone (None if not a valid request)
    pub qualifies_100: bool,
    pub over_limit: bool,
}

#[derive(Clone, Debug)]
pub struct Expected {
    pub j: usize,
    pub bytes: Vec<u8>,
    /// the response carries no tag (explicitly empty body): recognised by its exact bytes, in order
    pub untagged: bool,
}

pub struct Client {
    pub fd: RawFd,
    pub state: CState,
    pub shut_rd: bool,
    pub shut_wr: bool,
    /// number of responses the application had supplied when the client shut down its read side
    pub shut_rd_expected: usize,
    /// response bytes supplied but not read by the client at that moment
    pub shut_rd_unread: usize,
    pub sent: Vec<u8>,
    pub unsent: VecDeque<u8>,
    pub staged: VecDeque<Vec<u8>>,
    pub recv: Vec<u8>,
    pub eof: bool,
    pub reset: bool,
    pub composed: Vec<Composed>,
    pub expected: Vec<Expected>,
    /// sent anything that is not a sequence of complete well-formed requests
    pub dirty: bool,
    pub limit: usize,
    pub connected_at_poll: usize,
    pub yielded: Vec<usize>, // j's yielded, in order
    pub connect_order: usize,
    /// does not read its socket during `settle` (only when the history asks it to)
    pub lazy: bool,
}

pub struct Outstanding {
    pub sreq: ServerRequest,
    pub c: usize,
    pub j: usize,
}

#[derive(Clone, Debug, PartialEq, Eq)]
pub enum PollRes {
    NotReady,
    Ok(usize),
    Err(String),
}

pub struct World {
    pub server: Option<HttpServer>,
    pub path: PathBuf,
    pub clients: Vec<Client>,
    pub outstanding: Vec<Outstanding>,
    pub kill: Option<EventFd>,
    pub killed: bool,
    pub base: BTreeSet<RawFd>,
    pub devnull: RawFd,
    pub limit: usize,
    pub polls: usize,
    pub poll_results: Vec<PollRes>,
    pub api_errors: Vec<String>,
    pub log: Vec<String>,
    pub logging: bool,
    pub nonce: u32,
    pub connects: usize,
    pub bytes_moved: usize,
    pub yielded_untagged: Vec<String>,
    /// yielded requests that carry no valid tag (possible only from clients that sent garbage)
    pub untagged: Vec<ServerRequest>,
    pub yield_faults: Vec<String>,
    pub respond_results: Vec<(usize, usize, bool)>,
    pub sndbuf_shrunk: bool,
    /// requests already answered (kept so that a surplus response can be produced)
    pub answered: Vec<Outstanding>,
    /// keep answered requests (and whatever descriptors they carry) alive for `respond_surplus`
    pub keep_answered: bool,
    pub surplus_responds: usize,
    /// descriptor 0 of the process, parked while the kill switch occupies that number
    pub saved0: Option<RawFd>,
    pub fd0_taken: bool,
    /// length of a pad header the next composed request gets (used to hit exact total sizes)
    pub next_pad: usize,
    /// the first 503 message any client of this world received ("the fixed message": every
    /// refused client gets the same bytes)
    pub first_503: std::cell::RefCell<Option<Vec<u8>>>,
    /// the values of the requests' extra header fields carry multi-byte characters
    pub unicode_headers: bool,
}

pub fn fd_set() -> BTreeSet<RawFd> {
    let mut s = BTreeSet::new();
    unsafe {
        let d = libc::opendir(b"/proc/self/fd\0".as_ptr() as *const libc::c_char);
        if d.is_null() {
            return s;
        }
        let own = libc::dirfd(d);
        loop {
            let e = libc::readdir(d);
            if e.is_null() {
                break;
            }
            let name = std::ffi::CStr::from_ptr((*e).d_name.as_ptr());
            if let Ok(t) = name.to_str() {
                if let Ok(n) = t.parse::<RawFd>() {
                    // skip the handle of this very listing
                    if n != own {
                        s.insert(n);
                    }
                }
            }
        }
        libc::closedir(d);
    }
    s
}

pub fn serr(e: &ServerError) -> String {
    use micro_http::ConnectionError as CE;
    match e {
        ServerError::ConnectionError(c) => format!(
            "ConnectionError({})",
            match c {
                CE::ConnectionClosed => "ConnectionClosed",
                CE::InvalidWrite => "InvalidWrite",
                CE::ParseError(_) => "ParseError",
                CE::StreamReadError(_) => "StreamReadError",
                CE::StreamWriteError(_) => "StreamWriteError",
            }
        ),
        ServerError::IOError(io) => format!("IOError({:?})", io.kind()),
        ServerError::Overflow => "Overflow".into(),
        ServerError::ServerFull => "ServerFull".into(),
        ServerError::ShutdownEvent => "ShutdownEvent".into(),
        ServerError::Underflow => "Underflow".into(),
    }
}

#[derive(Clone, Debug)]
pub struct ReqSpec {
    pub method: u8,
    pub version: u8,
    pub body: usize,
    pub expect: bool,
    pub extra_headers: usize,
    pub body_kind: usize,
}

impl World {
    pub fn new(nslots: usize, with_kill: bool, logging: bool) -> Result<World, String> {
        // everything the harness owns is allocated before the base snapshot
        let mut saved0: Option<RawFd> = None;
        let mut kill_fd0: Option<EventFd> = None;
        if with_kill && KILL_ON_FD0.with(|c| c.get()) {
            let d = unsafe { libc::fcntl(0, libc::F_DUPFD_CLOEXEC, 3) };
            if d >= 0 {
                saved0 = Some(d);
            }
            unsafe { libc::close(0) };
            let k = EventFd::new(kill_flags()).map_err(|e| e.to_string())?;
            if k.as_raw_fd() != 0 {
                return Err(format!("kill switch expected on descriptor 0, got {}", k.as_raw_fd()));
            }
            kill_fd0 = Some(k);
        }
        let kill_on_0 = kill_fd0.is_some();
        let devnull = unsafe { libc::open(b"/dev/null\0".as_ptr() as *const libc::c_char, libc::O_RDWR | libc::O_CLOEXEC) };
        if devnull < 0 {
            return Err("open /dev/null".into());
        }
        let mut clients = Vec::new();
        for _ in 0..nslots {
            let fd = unsafe { libc::socket(libc::AF_UNIX, libc::SOCK_STREAM | libc::SOCK_CLOEXEC, 0) };
            if fd < 0 {
                return Err("socket()".into());
            }
            clients.push(Client {
                fd,
                state: CState::Unconnected,
                shut_rd: false,
                shut_wr: false,
                shut_rd_expected: 0,
                shut_rd_unread: 0,
                sent: vec![],
                unsent: VecDeque::new(),
                staged: VecDeque::new(),
                recv: vec![],
                eof: false,
                reset: false,
                composed: vec![],
                expected: vec![],
                dirty: false,
                limit: crate::DEFAULT_LIMIT,
                connected_at_poll: 0,
                yielded: vec![],
                connect_order: usize::MAX,
                lazy: false,
            });
        }
        let (kill_h, kill_for_server) = match kill_fd0 {
            // the object on descriptor 0 goes to the server; the harness signals through a clone
            Some(k0) => (Some(k0.try_clone().map_err(|e| e.to_string())?), Some(k0)),
            None => {
                let kill_h = if with_kill { Some(EventFd::new(kill_flags()).map_err(|e| e.to_string())?) } else { None };
                let kfs = match &kill_h {
                    Some(k) => Some(k.try_clone().map_err(|e| e.to_string())?),
                    None => None,
                };
                (kill_h, kfs)
            }
        };
        let presignalled = KILL_PRESIGNALLED.with(|c| c.replace(false)) && kill_h.is_some();
        if presignalled {
            if let Some(k) = &kill_h {
                let _ = k.write(1);
            }
        }
        let dir = scratch_dir();
        let path = dir.join(format!("s{}.sock", SOCK_COUNTER.fetch_add(1, Ordering::Relaxed)));
        let _ = std::fs::remove_file(&path);
        let base = fd_set();
        let mut server = if SERVER_FROM_FD.with(|c| c.get()) {
            use std::os::unix::io::IntoRawFd;
            let l = std::os::unix::net::UnixListener::bind(&path).map_err(|e| format!("bind: {}", e))?;
            // SAFETY: the descriptor is solely owned and handed over
            unsafe { HttpServer::new_from_fd(l.into_raw_fd()) }.map_err(|e| format!("HttpServer::new_from_fd: {:?}", e))?
        } else {
            HttpServer::new(&path).map_err(|e| format!("HttpServer::new: {:?}", e))?
        };
        // the kill switch may be registered before or after the server is started
        let after_start = KILL_AFTER_START.with(|c| c.get());
        if after_start {
            server.start_server().map_err(|e| format!("start_server: {:?}", e))?;
        }
        if let Some(k) = kill_for_server {
            server.add_kill_switch(k).map_err(|e| format!("add_kill_switch: {:?}", e))?;
        }
        if !after_start {
            server.start_server().map_err(|e| format!("start_server: {:?}", e))?;
        }
        // the kill switch handed to the server is part of the harness' accounting base
        let mut base = base;
        if with_kill {
            let now = fd_set();
            // server owns: listener, epoll (the eventfd clone was created before `base`)
            let _ = now;
        }
        base.insert(devnull);
        Ok(World {
            server: Some(server),
            path,
            clients,
            outstanding: vec![],
            kill: kill_h,
            killed: presignalled,
            base,
            devnull,
            limit: crate::DEFAULT_LIMIT,
            polls: 0,
            poll_results: vec![],
            api_errors: vec![],
            log: vec![],
            logging,
            nonce: 0,
            connects: 0,
            bytes_moved: 0,
            yielded_untagged: vec![],
            untagged: vec![],
            yield_faults: vec![],
            respond_results: vec![],
            sndbuf_shrunk: false,
            answered: vec![],
            keep_answered: false,
            surplus_responds: 0,
            next_pad: 0,
            first_503: std::cell::RefCell::new(None),
            unicode_headers: false,
            saved0,
            fd0_taken: kill_on_0,
        })
    }

    fn note(&mut self, s: String) {
        if self.logging && self.log.len() < 400 {
            self.log.push(s);
        }
    }

    /// descriptors held by the server beyond listener and epoll
    pub fn held(&self) -> isize {
        let now = fd_set();
        now.difference(&self.base).count() as isize - 2
    }

    pub fn server_fds(&self) -> Vec<RawFd> {
        fd_set().difference(&self.base).copied().collect()
    }

    pub fn epoll_ready(&self) -> bool {
        let fd = self.server.as_ref().unwrap().epoll().as_raw_fd();
        let mut p = libc::pollfd { fd, events: libc::POLLIN, revents: 0 };
        let r = unsafe { libc::poll(&mut p, 1, 0) };
        r > 0 && (p.revents & libc::POLLIN) != 0
    }

    // ---------------- client side

    pub fn connect(&mut self, c: usize) -> bool {
        if self.clients[c].state != CState::Unconnected {
            return false;
        }
        let fd = self.clients[c].fd;
        let p = self.path.to_string_lossy().to_string();
        let mut addr: libc::sockaddr_un = unsafe { std::mem::zeroed() };
        addr.sun_family = libc::AF_UNIX as libc::sa_family_t;
        for (i, b) in p.as_bytes().iter().enumerate().take(107) {
            addr.sun_path[i] = *b as libc::c_char;
        }
        let len = (std::mem::size_of::<libc::sa_family_t>() + p.len() + 1) as libc::socklen_t;
        let r = unsafe { libc::connect(fd, &addr as *const _ as *const libc::sockaddr, len) };
        if r != 0 {
            self.note(format!("connect(c{}) failed: {}", c, std::io::Error::last_os_error()));
            return false;
        }
        unsafe {
            let fl = libc::fcntl(fd, libc::F_GETFL);
            libc::fcntl(fd, libc::F_SETFL, fl | libc::O_NONBLOCK);
        }
        let lim = self.limit;
        let cl = &mut self.clients[c];
        cl.state = CState::Connected;
        cl.limit = lim;
        cl.connected_at_poll = self.polls;
        cl.connect_order = self.connects;
        self.connects += 1;
        self.note(format!("connect(c{})", c));
        true
    }

    /// push queued bytes into the socket; returns bytes accepted
    pub fn flush_client(&mut self, c: usize) -> usize {
        let cl = &mut self.clients[c];
        if cl.state != CState::Connected || cl.shut_wr {
            return 0;
        }
        let mut total = 0;
        while !cl.unsent.is_empty() {
            let (a, _) = cl.unsent.as_slices();
            let r = unsafe { libc::send(cl.fd, a.as_ptr() as *const libc::c_void, a.len(), libc::MSG_NOSIGNAL) };
            if r <= 0 {
                if r < 0 {
                    let e = std::io::Error::last_os_error().raw_os_error().unwrap_or(0);
                    if e != libc::EAGAIN && e != libc::EINTR {
                        // peer gone: nothing more can be sent
                        cl.unsent.clear();
                        cl.staged.clear();
                    }
                }
                break;
            }
            let n = r as usize;
            let taken: Vec<u8> = cl.unsent.drain(..n).collect();
            cl.sent.extend_from_slice(&taken);
            total += n;
        }
        self.bytes_moved += total;
        total
    }

    /// One `sendmsg` carrying `bytes` and `nfds` descriptors (copies of /dev/null) as SCM_RIGHTS.
    /// Only with nothing unsent in front of it; false if the socket did not take the whole message.
    pub fn send_with_fds(&mut self, c: usize, bytes: &[u8], nfds: usize) -> bool {
        use vmm_sys_util::sock_ctrl_msg::ScmSocket;
        if self.clients[c].state != CState::Connected || self.clients[c].shut_wr || !self.clients[c].unsent.is_empty() || bytes.is_empty() {
            return false;
        }
        struct Raw(RawFd);
        impl ScmSocket for Raw {
            fn socket_fd(&self) -> RawFd {
                self.0
            }
        }
        let fds = vec![self.devnull; nfds.min(253)];
        let sock = Raw(self.clients[c].fd);
        let r = sock.send_with_fds(&[bytes], &fds);
        let ok = matches!(r, Ok(n) if n == bytes.len());
        if let Ok(n) = r {
            self.clients[c].sent.extend_from_slice(&bytes[..n]);
            self.bytes_moved += n;
            if n < bytes.len() {
                self.clients[c].unsent.extend(bytes[n..].iter().copied());
            }
        }
        self.note(format!("sendmsg(c{}, {}B + {} descriptors) -> {}", c, bytes.len(), fds.len(), if ok { "whole" } else { "not whole" }));
        ok
    }

    pub fn send_raw(&mut self, c: usize, bytes: &[u8]) {
        if self.clients[c].state != CState::Connected || self.clients[c].shut_wr {
            return;
        }
        self.clients[c].unsent.extend(bytes.iter().copied());
        let n = self.flush_client(c);
        self.note(format!("send(c{}, {}B \"{}\") accepted {}", c, bytes.len(), esc(&bytes[..bytes.len().min(48)]), n));
    }

    pub fn compose(&mut self, c: usize, spec: &ReqSpec) -> Vec<u8> {
        let j = self.clients[c].composed.len();
        let limit = self.clients[c].limit;
        let mut v = Vec::new();
        v.extend_from_slice(crate::refparse::METHODS[spec.method as usize]);
        v.extend_from_slice(format!(" /c{}/r{} ", c, j).as_bytes());
        v.extend_from_slice(crate::refparse::VERSIONS[spec.version as usize]);
        v.extend_from_slice(b"\r\n");
        for k in 0..spec.extra_headers {
            if self.unicode_headers {
                v.extend_from_slice(format!("X-H{}: v{}{}\r\n", k, j, "\u{e9}\u{20ac}\u{1d11e}".repeat(5)).as_bytes());
            } else {
                v.extend_from_slice(format!("X-H{}: v{}\r\n", k, j).as_bytes());
            }
        }
        let pad = std::mem::take(&mut self.next_pad);
        if pad > 0 {
            v.extend_from_slice(b"X-Pad: ");
            v.extend(std::iter::repeat(b'p').take(pad));
            v.extend_from_slice(b"\r\n");
        }
        if spec.expect {
            v.extend_from_slice(b"Expect: 100-continue\r\n");
        }
        if spec.body > 0 {
            v.extend_from_slice(format!("Content-Length: {}\r\n", spec.body).as_bytes());
        }
        v.extend_from_slice(b"\r\n");
        if spec.body > 0 {
            let tag = format!("c{}r{}>", c, j).into_bytes();
            let mut body = tag;
            body.truncate(spec.body);
            let fill = filler(spec.body_kind, (c * 31 + j) as u8, spec.body - body.len());
            body.extend(fill);
            v.extend_from_slice(&body);
        }
        let (reqs, end) = ref_parse(&v, 1024, limit);
        let rref = if reqs.len() == 1 && reqs[0].complete_at == v.len() && end == End::Incomplete { Some(reqs[0].clone()) } else { None };
        let over_limit = spec.body > limit;
        let qualifies_100 = spec.expect && spec.body > 0 && !over_limit;
        self.clients[c].composed.push(Composed { j, bytes: v.clone(), rref, qualifies_100, over_limit });
        if over_limit {
            self.clients[c].dirty = true;
        }
        v
    }

    /// send one request whose total length is exactly `total` bytes (false if that is not possible)
    pub fn send_request_sized(&mut self, c: usize, spec: &ReqSpec, total: usize) -> bool {
        if self.clients[c].state != CState::Connected || self.clients[c].shut_wr {
            return false;
        }
        let base = self.compose(c, spec).len();
        self.clients[c].composed.pop();
        if total < base + 10 || total - base - 9 > 1000 {
            return false;
        }
        self.next_pad = total - base - 9;
        self.send_request(c, spec, &[]);
        true
    }

    /// stage a request in pieces; the first piece is sent now
    pub fn send_request(&mut self, c: usize, spec: &ReqSpec, cuts: &[usize]) {
        if self.clients[c].state != CState::Connected || self.clients[c].shut_wr {
            return;
        }
        let bytes = self.compose(c, spec);
        let mut pieces: Vec<Vec<u8>> = Vec::new();
        let mut last = 0;
        let mut cs: Vec<usize> = cuts.iter().map(|x| x % (bytes.len() + 1)).collect();
        cs.sort_unstable();
        for cpos in cs {
            if cpos > last && cpos < bytes.len() {
                pieces.push(bytes[last..cpos].to_vec());
                last = cpos;
            }
        }
        pieces.push(bytes[last..].to_vec());
        self.note(format!("compose(c{} r{} {}B in {} piece(s))", c, self.clients[c].composed.len() - 1, bytes.len(), pieces.len()));
        for p in pieces {
            self.clients[c].staged.push_back(p);
        }
        self.send_next(c);
    }

    pub fn send_next(&mut self, c: usize) -> bool {
        if let Some(p) = self.clients[c].staged.pop_front() {
            self.clients[c].unsent.extend(p.iter().copied());
            let n = self.flush_client(c);
            self.note(format!("send_piece(c{}, {}B) accepted {}", c, p.len(), n));
            true
        } else {
            self.flush_client(c) > 0
        }
    }

    pub fn read_client(&mut self, c: usize, max: usize) -> usize {
        let cl = &mut self.clients[c];
        if cl.state != CState::Connected || cl.shut_rd || cl.eof || cl.reset {
            return 0;
        }
        let mut total = 0;
        let mut buf = vec![0u8; 65536];
        while total < max {
            let want = (max - total).min(buf.len());
            let r = unsafe { libc::recv(cl.fd, buf.as_mut_ptr() as *mut libc::c_void, want, 0) };
            if r > 0 {
                cl.recv.extend_from_slice(&buf[..r as usize]);
                total += r as usize;
            } else if r == 0 {
                cl.eof = true;
                break;
            } else {
                let e = std::io::Error::last_os_error().raw_os_error().unwrap_or(0);
                if e == libc::ECONNRESET || e == libc::EPIPE {
                    cl.reset = true;
                }
                break;
            }
        }
        self.bytes_moved += total;
        if total > 0 || self.clients[c].eof {
            let (eof, reset) = (self.clients[c].eof, self.clients[c].reset);
            self.note(format!("read(c{}) got {}B{}{}", c, total, if eof { " EOF" } else { "" }, if reset { " RESET" } else { "" }));
        }
        total
    }

    pub fn close_client(&mut self, c: usize) {
        if self.clients[c].state == CState::Closed {
            return;
        }
        let was = self.clients[c].state;
        let fd = self.clients[c].fd;
        unsafe { libc::dup2(self.devnull, fd) };
        let cl = &mut self.clients[c];
        cl.state = CState::Closed;
        if !cl.unsent.is_empty() || !cl.staged.is_empty() {
            cl.dirty = true;
        }
        cl.unsent.clear();
        cl.staged.clear();
        if was == CState::Connected {
            self.note(format!("close(c{})", c));
        }
    }

    pub fn shutdown_client(&mut self, c: usize, how: i32) {
        if self.clients[c].state != CState::Connected {
            return;
        }
        unsafe { libc::shutdown(self.clients[c].fd, how) };
        let cl = &mut self.clients[c];
        if (how == libc::SHUT_RD || how == libc::SHUT_RDWR) && !cl.shut_rd {
            cl.shut_rd = true;
            cl.shut_rd_expected = cl.expected.len();
            cl.shut_rd_unread = cl.expected.iter().map(|e| e.bytes.len()).sum::<usize>().saturating_sub(cl.recv.len());
        }
        if how == libc::SHUT_WR || how == libc::SHUT_RDWR {
            cl.shut_wr = true;
            if !cl.unsent.is_empty() || !cl.staged.is_empty() {
                cl.dirty = true;
            }
            cl.unsent.clear();
            cl.staged.clear();
        }
        self.note(format!("shutdown(c{}, {})", c, match how { libc::SHUT_RD => "RD", libc::SHUT_WR => "WR", _ => "RDWR" }));
    }

    // ---------------- application side

    /// one `requests()` call, only if the epoll descriptor is readable
    pub fn poll(&mut self) -> PollRes {
        if !self.epoll_ready() {
            return PollRes::NotReady;
        }
        self.polls += 1;
        // a panic inside the library is a result like any other (never a harness failure)
        let r = match std::panic::catch_unwind(std::panic::AssertUnwindSafe(|| self.server.as_mut().unwrap().requests())) {
            Ok(r) => r,
            Err(p) => {
                let res = PollRes::Err(format!("PANIC({})", crate::connrun::panic_msg(p)));
                self.note(format!("poll#{} -> {:?}", self.polls, res));
                self.poll_results.push(res.clone());
                return res;
            }
        };
        let res = match r {
            Ok(v) => {
                let n = v.len();
                for sreq in v {
                    let path = sreq.request.uri().get_abs_path().to_string();
                    match parse_tag(&path, self.clients.len()) {
                        Some((c, j)) => {
                            self.check_yield(c, j, &sreq);
                            self.clients[c].yielded.push(j);
                            self.outstanding.push(Outstanding { sreq, c, j });
                        }
                        None => {
                            self.yielded_untagged.push(path);
                            self.untagged.push(sreq);
                        }
                    }
                }
                PollRes::Ok(n)
            }
            Err(e) => PollRes::Err(serr(&e)),
        };
        self.note(format!("poll#{} -> {:?}", self.polls, res));
        self.poll_results.push(res.clone());
        res
    }

    fn check_yield(&mut self, c: usize, j: usize, sreq: &ServerRequest) {
        let cl = &self.clients[c];
        if j >= cl.composed.len() {
            self.yield_faults.push(format!("request tagged c{}r{} was yielded but client {} composed only {} requests", c, j, c, cl.composed.len()));
            return;
        }
        if cl.yielded.contains(&j) {
            self.yield_faults.push(format!("request c{}r{} yielded twice", c, j));
        }
        let d: Delivered = delivered_of(&sreq.request);
        if let Some(body) = &d.body {
            if body.len() != d.cl as usize {
                self.yield_faults.push(format!("request c{}r{} yielded with a body of {} bytes but Content-Length {}", c, j, body.len(), d.cl));
            }
        }
        if !cl.dirty {
            if let Some(r) = &cl.composed[j].rref {
                if let Some(m) = diff_delivered(&d, r) {
                    self.yield_faults.push(format!("request c{}r{} yielded with different content: {}", c, j, m));
                }
            }
        }
    }

    pub fn make_response(&mut self, c: usize, j: usize, code: u16, size: usize, version: u8) -> (Response, Vec<u8>) {
        if size == usize::MAX {
            // an explicitly set, empty body (Content-Length: 0)
            let calls = vec![Call::SetBody(Vec::new())];
            return (build_real(version, code, &calls), build_model(version, code, &calls).bytes());
        }
        self.nonce += 1;
        let mut body = format!("c{}r{}#{}|", c, j, self.nonce).into_bytes();
        if size > body.len() {
            body.extend(filler(0, (c + j) as u8, size - body.len()));
        }
        let calls = vec![Call::SetBody(body)];
        let real = build_real(version, code, &calls);
        let bytes = build_model(version, code, &calls).bytes();
        (real, bytes)
    }

    /// respond to outstanding[k]
    pub fn respond(&mut self, k: usize, code: u16, size: usize) -> bool {
        self.respond_v(k, code, size, None)
    }

    /// same, with the response's HTTP version chosen by the application (None: the request's)
    pub fn respond_v(&mut self, k: usize, code: u16, size: usize, version: Option<u8>) -> bool {
        if k >= self.outstanding.len() {
            return true;
        }
        let o = self.outstanding.remove(k);
        let version = version.unwrap_or_else(|| crate::connrun::version_code(o.sreq.request.http_version()));
        let (resp, bytes) = self.make_response(o.c, o.j, code, size, version);
        self.clients[o.c].expected.push(Expected { j: o.j, bytes, untagged: size == usize::MAX });
        let mut slot = Some(resp);
        let sresp = o.sreq.process(|_| slot.take().unwrap_or_else(|| Response::new(micro_http::Version::Http11, micro_http::StatusCode::OK)));
        let r = match std::panic::catch_unwind(std::panic::AssertUnwindSafe(|| self.server.as_mut().unwrap().respond(sresp))) {
            Ok(r) => r,
            Err(p) => {
                self.api_errors.push(format!("respond(c{}r{}) -> PANIC({})", o.c, o.j, crate::connrun::panic_msg(p)));
                self.respond_results.push((o.c, o.j, false));
                return false;
            }
        };
        let ok = r.is_ok();
        if let Err(e) = &r {
            self.api_errors.push(format!("respond(c{}r{}) -> {}", o.c, o.j, serr(e)));
        }
        self.respond_results.push((o.c, o.j, ok));
        self.note(format!("respond(c{}r{}, {} {}B) -> {}", o.c, o.j, code, size, if ok { "Ok" } else { "Err" }));
        if self.keep_answered {
            if self.answered.len() >= 8 {
                self.answered.remove(0);
            }
            self.answered.push(o);
        }
        ok
    }

    /// The application hands in a second response for a request it has already answered
    /// (`ServerRequest::process` can be called again). Only while nothing else is outstanding
    /// for that client, so that the surplus cannot be taken for another request's answer. The
    /// documented outcome is `Err(Underflow)`; the client may receive the surplus response.
    pub fn respond_surplus(&mut self, i: usize) {
        if self.answered.is_empty() {
            return;
        }
        let i = i % self.answered.len();
        let (c, j) = (self.answered[i].c, self.answered[i].j);
        if self.outstanding.iter().any(|o| o.c == c) {
            return;
        }
        let version = crate::connrun::version_code(self.answered[i].sreq.request.http_version());
        let (resp, _) = self.make_response(c, j, 200, 10, version);
        let mut slot = Some(resp);
        let sresp = self.answered[i].sreq.process(|_| slot.take().unwrap_or_else(|| Response::new(micro_http::Version::Http11, micro_http::StatusCode::OK)));
        self.clients[c].dirty = true;
        let r = std::panic::catch_unwind(std::panic::AssertUnwindSafe(|| self.server.as_mut().unwrap().respond(sresp)));
        let txt = match &r {
            Ok(Ok(())) => "Ok".to_string(),
            Ok(Err(e)) => serr(e),
            Err(_) => "PANIC".to_string(),
        };
        if r.is_err() {
            self.api_errors.push(format!("respond(surplus c{}r{}) -> PANIC", c, j));
        }
        self.surplus_responds += 1;
        self.note(format!("respond(c{}r{} again: surplus) -> {}", c, j, txt));
    }

    pub fn respond_batch(&mut self, ks: &[usize], code: u16, size: usize) -> bool {
        let mut idx: Vec<usize> = ks.iter().copied().filter(|k| *k < self.outstanding.len()).collect();
        idx.sort_unstable();
        idx.dedup();
        self.respond_batch_in_order(&idx, code, size)
    }

    /// one `enqueue_responses` call with the responses to `outstanding[ks[0]], outstanding[ks[1]], ..`
    /// in exactly that order (indices distinct)
    pub fn respond_batch_in_order(&mut self, ks: &[usize], code: u16, size: usize) -> bool {
        let mut order: Vec<usize> = Vec::new();
        for k in ks {
            if *k < self.outstanding.len() && !order.contains(k) {
                order.push(*k);
            }
        }
        let mut sorted = order.clone();
        sorted.sort_unstable();
        let mut taken: Vec<(usize, Outstanding)> = Vec::new();
        for k in sorted.into_iter().rev() {
            taken.push((k, self.outstanding.remove(k)));
        }
        let mut batch = Vec::new();
        for k in order {
            let pos = taken.iter().position(|(i, _)| *i == k).unwrap();
            let (_, o) = taken.swap_remove(pos);
            let version = crate::connrun::version_code(o.sreq.request.http_version());
            let (resp, bytes) = self.make_response(o.c, o.j, code, size, version);
            let mut slot = Some(resp);
            let sresp = o.sreq.process(|_| slot.take().unwrap());
            batch.push((o.c, o.j, bytes, sresp));
        }
        let mut v = Vec::new();
        for (c, j, bytes, sresp) in batch {
            self.clients[c].expected.push(Expected { j, bytes, untagged: false });
            self.respond_results.push((c, j, true));
            v.push(sresp);
        }
        let n = v.len();
        let r = self.server.as_mut().unwrap().enqueue_responses(v);
        if let Err(e) = &r {
            self.api_errors.push(format!("enqueue_responses({}) -> {}", n, serr(e)));
        }
        self.note(format!("enqueue_responses({}) -> {}", n, if r.is_ok() { "Ok" } else { "Err" }));
        r.is_ok()
    }

    /// answer requests that carry no tag (so that their connections can be released)
    pub fn answer_untagged(&mut self) {
        while let Some(sreq) = self.untagged.pop() {
            let mut r = Response::new(micro_http::Version::Http11, micro_http::StatusCode::NotFound);
            r.set_body(Body::new("untagged-request".to_string()));
            let mut slot = Some(r);
            let sresp = sreq.process(|_| slot.take().unwrap());
            if let Err(e) = self.server.as_mut().unwrap().respond(sresp) {
                self.api_errors.push(format!("respond(untagged) -> {}", serr(&e)));
            }
            self.note("respond(untagged request)".into());
        }
    }

    pub fn flush(&mut self) {
        if let Err(p) = std::panic::catch_unwind(std::panic::AssertUnwindSafe(|| self.server.as_mut().unwrap().flush_outgoing_writes())) {
            self.api_errors.push(format!("flush_outgoing_writes -> PANIC({})", crate::connrun::panic_msg(p)));
        }
        self.note("flush_outgoing_writes".into());
    }

    pub fn set_limit(&mut self, l: usize) {
        self.limit = l;
        self.server.as_mut().unwrap().set_payload_max_size(l);
        self.note(format!("set_payload_max_size({})", l));
    }

    pub fn kill(&mut self) {
        if let Some(k) = &self.kill {
            let _ = k.write(1);
            self.killed = true;
        }
        self.note("kill".into());
    }

    /// something that changes whenever the server makes observable progress
    fn progress_sig(&self) -> (usize, usize, i64, usize, usize) {
        // unread input queued at the server's own descriptors shrinks whenever the server reads
        let fds = fd_set();
        let mut inq: i64 = 0;
        // which sockets the server holds, by inode: an accept and a release in the same call leave
        // the count (and possibly the descriptor numbers) unchanged, but never the identities
        let mut ident: u64 = 0xcbf29ce484222325;
        for fd in fds.difference(&self.base) {
            let mut v: libc::c_int = 0;
            if unsafe { libc::ioctl(*fd, libc::FIONREAD, &mut v) } == 0 {
                inq += v as i64;
            }
            let mut st: libc::stat = unsafe { std::mem::zeroed() };
            if unsafe { libc::fstat(*fd, &mut st) } == 0 {
                ident = (ident ^ st.st_ino as u64).wrapping_mul(0x100000001b3);
            }
        }
        let yielded: usize = self.clients.iter().map(|c| c.yielded.len()).sum();
        (self.bytes_moved, fds.len() ^ (ident as usize), inq, self.outstanding.len(), yielded)
    }

    /// { push unsent; poll while ready; clients read everything } until nothing moves.
    /// Returns (polls used, stopped early). It stops early when the budget is used up or
    /// when the epoll descriptor keeps signalling while 4 consecutive calls changed nothing
    /// observable (bytes moved either way, descriptors held, requests yielded): only C08
    /// treats that as a violation; a dead connection kept for late answers produces it
    /// legitimately.
    pub fn settle(&mut self, budget: usize, stop_on_err: bool) -> (usize, bool) {
        // a caller's budget is a convenience, never a promise about how few polls a correct server
        // needs: one unit of progress per poll is all that may be assumed
        let budget = budget.max(self.progress_bound());
        let mut used = 0;
        self.note("settle {".into());
        let mut idle = 0;
        let mut sig = self.progress_sig();
        loop {
            let mut moved = false;
            for c in 0..self.clients.len() {
                if self.clients[c].state == CState::Connected {
                    if self.flush_client(c) > 0 {
                        moved = true;
                    }
                    while self.clients[c].unsent.is_empty() && !self.clients[c].staged.is_empty() {
                        self.send_next(c);
                        moved = true;
                    }
                }
            }
            while self.epoll_ready() {
                if used >= budget {
                    self.note("} settle: budget exceeded".into());
                    return (used, true);
                }
                used += 1;
                let r = self.poll();
                moved = true;
                if let PollRes::Err(_) = r {
                    if stop_on_err {
                        self.note("} settle: error".into());
                        return (used, false);
                    }
                }
                for c in 0..self.clients.len() {
                    if self.clients[c].state == CState::Connected {
                        if !self.clients[c].lazy {
                            self.read_client(c, usize::MAX);
                        }
                        self.flush_client(c);
                    }
                }
                let now = self.progress_sig();
                if now == sig {
                    idle += 1;
                    if idle >= 4 {
                        self.note("} settle: epoll keeps signalling without progress".into());
                        return (used, true);
                    }
                } else {
                    idle = 0;
                    sig = now;
                }
            }
            for c in 0..self.clients.len() {
                if self.clients[c].state == CState::Connected && !self.clients[c].lazy && self.read_client(c, usize::MAX) > 0 {
                    moved = true;
                }
            }
            if !moved {
                break;
            }
        }
        self.note(format!("}} settle: {} polls", used));
        (used, false)
    }

    /// budget for a settle of well-behaved clients: every poll of a healthy server moves at
    /// least one unit (a byte in, a byte out, an accept, a reap)
    pub fn progress_bound(&self) -> usize {
        let inb: usize = self.clients.iter().map(|c| c.sent.len() + c.unsent.len() + c.staged.iter().map(|p| p.len()).sum::<usize>()).sum();
        let outb: usize = self.clients.iter().map(|c| c.expected.iter().map(|e| e.bytes.len()).sum::<usize>() + 256 * (c.composed.len() + 1)).sum();
        inb + outb + 2 * self.clients.len() + 64
    }

    pub fn render(&self) -> String {
        let mut s = self.log.join("\n");
        s.push_str("\n-- clients: ");
        for (i, c) in self.clients.iter().enumerate() {
            if c.state != CState::Unconnected {
                s.push_str(&format!("c{}[{:?} sent={} recv={} eof={} yielded={:?} expected={:?}] ", i, c.state, c.sent.len(), c.recv.len(), c.eof, c.yielded, c.expected.iter().map(|e| e.j).collect::<Vec<_>>()));
            }
        }
        s
    }
}

impl Drop for World {
    fn drop(&mut self) {
        self.outstanding.clear();
        self.answered.clear();
        self.untagged.clear();
        self.server.take();
        for c in &self.clients {
            unsafe { libc::close(c.fd) };
        }
        unsafe { libc::close(self.devnull) };
        if self.fd0_taken {
            // the server has closed the switch on descriptor 0; put back what was there
            if let Some(d) = self.saved0.take() {
                unsafe {
                    libc::dup2(d, 0);
                    libc::close(d);
                }
            }
        }
        let _ = std::fs::remove_file(&self.path);
    }
}

pub fn parse_tag(path: &str, nclients: usize) -> Option<(usize, usize)> {
    // "/c<c>/r<j>"
    let rest = path.strip_prefix("/c")?;
    let slash = rest.find('/')?;
    let c: usize = rest[..slash].parse().ok()?;
    let r = rest[slash..].strip_prefix("/r")?;
    let j: usize = r.parse().ok()?;
    if c < nclients {
        Some((c, j))
    } else {
        None
    }
}

/// find "c<d>r<d>#" tags in a byte string
pub fn find_tags(b: &[u8]) -> Vec<(usize, usize)> {
    let mut out = Vec::new();
    let mut i = 0;
    while i < b.len() {
        if b[i] == b'c' {
            let mut k = i + 1;
            let mut c = 0usize;
            let mut nd = 0;
            while k < b.len() && b[k].is_ascii_digit() && nd < 4 {
                c = c * 10 + (b[k] - b'0') as usize;
                k += 1;
                nd += 1;
            }
            if nd > 0 && k < b.len() && b[k] == b'r' {
                k += 1;
                let mut j = 0usize;
                let mut nj = 0;
                while k < b.len() && b[k].is_ascii_digit() && nj < 6 {
                    j = j * 10 + (b[k] - b'0') as usize;
                    k += 1;
                    nj += 1;
                }
                if nj > 0 && k < b.len() && (b[k] == b'#' || b[k] == b'>') {
                    out.push((c, j));
                    i = k;
                }
            }
        }
        i += 1;
    }
    out
}

#[derive(Default, Debug)]
pub struct Audit {
    pub app_received: usize,
    pub n100: usize,
    pub n400: usize,
    pub n503: usize,
    pub n500: usize,
    pub partial: bool,
    pub complete_in_order: bool,
}

pub const SERVER_FULL: &[u8] = b"HTTP/1.1 503\r\nServer: Firecracker API\r\nConnection: close\r\nContent-Length: 40\r\n\r\n{ \"error\": \"Too many open connections\" }";

/// Everything client `c` ever received must be well-formed responses that belong to it.
/// Returns Err((sig, msg)) on a breach.
pub fn audit_client(w: &World, c: usize) -> Result<Audit, (String, String)> {
    let cl = &w.clients[c];
    let mut a = Audit::default();
    let (resps, end) = rr_parse(&cl.recv);
    let mut next_expected = 0usize; // index into cl.expected
    let mut seen: BTreeSet<usize> = BTreeSet::new();
    let qualifying = cl.composed.iter().filter(|r| r.qualifies_100).count();
    let mut pos = 0usize;
    for r in &resps {
        let raw = &cl.recv[pos..pos + r.len];
        pos += r.len;
        let tags = find_tags(&r.body);
        // an application response without a tag is recognised by position and exact bytes
        if let Some(e) = cl.expected.get(next_expected) {
            if e.untagged && e.bytes == raw {
                next_expected += 1;
                a.app_received += 1;
                continue;
            }
        }
        let is_app = r.body.first() == Some(&b'c') && !tags.is_empty() && r.body.iter().position(|x| *x == b'#').map(|p| p < 16).unwrap_or(false);
        if is_app {
            let (tc, tj) = tags[0];
            if tc != c {
                return Err(("foreign-response".into(), format!("client {} received the application's response to request c{}r{}", c, tc, tj)));
            }
            if !seen.insert(tj) {
                return Err(("duplicate-response".into(), format!("client {} received the response to its request r{} twice", c, tj)));
            }
            // in the order the application supplied them: a subsequence of `expected`
            let mut found = None;
            for (i, e) in cl.expected.iter().enumerate().skip(next_expected) {
                if e.j == tj {
                    found = Some(i);
                    break;
                }
            }
            match found {
                Some(i) => {
                    if cl.expected[i].bytes != raw {
                        return Err(("response-bytes".into(), format!("client {}: response to r{} differs from what the application supplied ({} vs {} bytes)", c, tj, raw.len(), cl.expected[i].bytes.len())));
                    }
                    next_expected = i + 1;
                }
                None => {
                    if cl.expected.iter().any(|e| e.j == tj) {
                        return Err(("response-order".into(), format!("client {} received the response to r{} out of the order the application supplied", c, tj)));
                    }
                    return Err(("unsupplied-response".into(), format!("client {} received a response tagged r{} the application never supplied to it", c, tj)));
                }
            }
            a.app_received += 1;
        } else {
            // server-generated
            for (tc, tj) in tags {
                if tc != c {
                    return Err(("foreign-data".into(), format!("client {} received a server-generated {} carrying data of c{}r{}", c, r.code, tc, tj)));
                }
            }
            match r.code {
                100 => {
                    a.n100 += 1;
                    if !r.body.is_empty() {
                        return Err(("bad-100".into(), format!("client {} received a 100 with a body", c)));
                    }
                    if a.n100 > qualifying && !cl.dirty {
                        return Err(("unjustified-100".into(), format!("client {} received {} interim responses but sent only {} qualifying requests", c, a.n100, qualifying)));
                    }
                }
                400 => {
                    a.n400 += 1;
                    if !cl.dirty {
                        return Err(("unjustified-400".into(), format!("client {} sent only well-formed requests and received a 400: \"{}\"", c, esc(&r.body))));
                    }
                }
                503 => {
                    a.n503 += 1;
                    // the fixed message: `Connection: close` and the 40-byte JSON body
                    let body40: &[u8] = &SERVER_FULL[SERVER_FULL.len() - 40..];
                    if r.header("Connection") != Some("close") || r.header("Content-Length") != Some("40") || r.body != body40 {
                        return Err(("bad-503".into(), format!("client {} received a 503 that is not the fixed message: \"{}\"", c, esc(raw))));
                    }
                    let mut first = w.first_503.borrow_mut();
                    match &*first {
                        None => *first = Some(raw.to_vec()),
                        Some(f) if f.as_slice() != raw => {
                            return Err(("bad-503".into(), format!("client {} received a 503 that differs from the one another refused client received: \"{}\" vs \"{}\"", c, esc(raw), esc(f))));
                        }
                        _ => {}
                    }
                }
                500 => a.n500 += 1,
                404 if cl.dirty && r.body == b"untagged-request" => {}
                other => {
                    return Err(("unknown-response".into(), format!("client {} received an untagged {} response: \"{}\"", c, other, esc(&raw[..raw.len().min(200)]))));
                }
            }
        }
    }
    match end {
        RrEnd::Clean => {}
        RrEnd::Partial(at) => {
            a.partial = true;
            for (tc, tj) in find_tags(&cl.recv[at..]) {
                if tc != c {
                    return Err(("foreign-response".into(), format!("client {} received (part of) the response to c{}r{}", c, tc, tj)));
                }
            }
        }
        RrEnd::Garbage(at, why) => {
            return Err(("garbage".into(), format!("client {} received bytes that are not a response at offset {} ({}): \"{}\"", c, at, why, esc(&cl.recv[at..cl.recv.len().min(at + 120)]))));
        }
    }
    a.complete_in_order = next_expected == cl.expected.len() && !a.partial;
    Ok(a)
}

#[allow(dead_code)]
fn unused(_: Body) {}
