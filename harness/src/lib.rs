//! mhv: property-based / fuzzing harness deciding the micro-http properties C01..C18.
pub mod connrun;
pub mod engine;
pub mod fuzzrt;
pub mod gen;
pub mod props;
pub mod refparse;
pub mod respread;
pub mod src;
pub mod stream;
pub mod world;

/// Receive window / line limit of the build under test.
pub fn buf_size() -> usize {
    #[cfg(feature = "hooks")]
    {
        micro_http::VERIF_BUFFER_SIZE
    }
    #[cfg(not(feature = "hooks"))]
    {
        1024
    }
}

pub const DEFAULT_LIMIT: usize = 51200;
