use std::path::PathBuf;

use mhv::engine::{parent_main, replay_main, worker_main, Tier};

fn usage() -> ! {
    eprintln!("usage: mhv run <ID> <quick|thorough> | worker <ID> <tier> <seed> <shard> <nshards> <out> | replay <file> [--quiet] | list");
    std::process::exit(2)
}

fn tier_of(s: &str) -> Tier {
    match s {
        "quick" => Tier::Quick,
        "thorough" => Tier::Thorough,
        _ => usage(),
    }
}

fn main() {
    let args: Vec<String> = std::env::args().collect();
    if args.len() < 2 {
        usage();
    }
    let props = mhv::props::all();
    match args[1].as_str() {
        "list" => {
            for p in &props {
                println!("{}", p.id);
            }
        }
        "run" => {
            if args.len() < 4 {
                usage();
            }
            let p = props.iter().find(|p| p.id == args[2]).unwrap_or_else(|| usage());
            let seed: u64 = std::env::var("VERIF_SEED").ok().and_then(|s| s.parse().ok()).unwrap_or(1);
            std::process::exit(parent_main(p, tier_of(&args[3]), seed));
        }
        "worker" => {
            if args.len() < 8 {
                usage();
            }
            let p = props.iter().find(|p| p.id == args[2]).unwrap_or_else(|| usage());
            let seed: u64 = args[4].parse().unwrap_or(1);
            let shard: u64 = args[5].parse().unwrap_or(0);
            let n: u64 = args[6].parse().unwrap_or(1);
            let out = PathBuf::from(&args[7]);
            std::process::exit(worker_main(p, tier_of(&args[3]), seed, shard, n, cfg!(feature = "smallbuf"), &out));
        }
        "corpus" => {
            if args.len() < 4 {
                usage();
            }
            let n = mhv::fuzzrt::write_corpus(&args[2], &PathBuf::from(&args[3]));
            println!("{} files", n);
        }
        "corpus-any" => {
            if args.len() < 4 {
                usage();
            }
            let n = mhv::fuzzrt::write_corpus_any(args[2].parse().unwrap_or(300), &PathBuf::from(&args[3]));
            println!("{} files", n);
        }
        "fuzzsubs" => {
            // the PBT subs (choice-byte inputs) of a property with their input length bound
            if args.len() < 3 {
                usage();
            }
            let p = props.iter().find(|p| p.id == args[2]).unwrap_or_else(|| usage());
            let mut seen: Vec<&str> = Vec::new();
            for j in (p.plan)(Tier::Thorough) {
                if let mhv::engine::JobKind::Pbt { max_len, .. } = j.kind {
                    if !j.smallbuf && !seen.contains(&j.sub) && j.sub != "raw" {
                        seen.push(j.sub);
                        println!("{} {}", j.sub, max_len);
                    }
                }
            }
        }
        "replay" => {
            if args.len() < 3 {
                usage();
            }
            let quiet = args.iter().any(|a| a == "--quiet");
            std::process::exit(replay_main(&props, &PathBuf::from(&args[2]), quiet));
        }
        _ => usage(),
    }
}
