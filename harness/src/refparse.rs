//! REF: whole-stream reference request parser and HREF: reference statement of the header
//! rules. Written from the grammar in C02 and the rules in C15; shares nothing with
//! /repo beyond `std`. No buffer, no cursor, no state enum: a recursive descent over the
//! complete byte vector, parameterised by the line limit `b` and the payload limit `l`.

use std::collections::BTreeMap;

#[derive(Clone, Copy, Debug, PartialEq, Eq)]
pub enum Media {
    Plain,
    Json,
}

#[derive(Clone, Debug, PartialEq, Eq)]
pub struct RefHeaders {
    pub content_length: u32,
    pub expect: bool,
    pub chunked: bool,
    pub accept: Media,
    pub custom: BTreeMap<String, String>,
}

impl Default for RefHeaders {
    fn default() -> Self {
        RefHeaders {
            content_length: 0,
            expect: false,
            chunked: false,
            accept: Media::Plain,
            custom: BTreeMap::new(),
        }
    }
}

/// Outcome class of one header line under the header rules.
#[derive(Clone, Copy, Debug, PartialEq, Eq)]
pub enum LineClass {
    Accepted,
    /// unsupported value of Content-Type / Accept / Transfer-Encoding / Expect: ignored
    Ignored,
    Fatal(HFault),
}

#[derive(Clone, Copy, Debug, PartialEq, Eq)]
pub enum HFault {
    NonUtf8,
    NoColon,
    BadContentLength,
    EmptyAcceptEncoding,
    IdentityExcluded,
    LineTooLong,
}

/// Unicode White_Space (what "whitespace around names and values" means for UTF-8 text).
pub fn is_ws(c: char) -> bool {
    matches!(c,
        '\u{0009}'..='\u{000D}' | '\u{0020}' | '\u{0085}' | '\u{00A0}' | '\u{1680}'
        | '\u{2000}'..='\u{200A}' | '\u{2028}' | '\u{2029}' | '\u{202F}' | '\u{205F}' | '\u{3000}')
}

pub fn trim_ws(s: &str) -> &str {
    let mut start = 0;
    let mut end = s.len();
    for (i, c) in s.char_indices() {
        if is_ws(c) {
            start = i + c.len_utf8();
        } else {
            break;
        }
    }
    if start >= end {
        return "";
    }
    for (i, c) in s.char_indices().rev() {
        if i < start {
            break;
        }
        if is_ws(c) {
            end = i;
        } else {
            break;
        }
    }
    &s[start..end]
}

fn ascii_lower(s: &str) -> String {
    s.chars()
        .map(|c| if c.is_ascii_uppercase() { (c as u8 + 32) as char } else { c })
        .collect()
}

/// "unsigned 32-bit decimal": optional '+', one or more ASCII digits, value <= 2^32-1
/// (see DESIGN.md 2.2 for the '+').
pub fn parse_u32_decimal(s: &str) -> Option<u32> {
    let b = s.as_bytes();
    let digits = if !b.is_empty() && b[0] == b'+' { &b[1..] } else { b };
    if digits.is_empty() {
        return None;
    }
    let mut v: u64 = 0;
    for &d in digits {
        if !d.is_ascii_digit() {
            return None;
        }
        v = v * 10 + (d - b'0') as u64;
        if v > u32::MAX as u64 {
            return None;
        }
    }
    Some(v as u32)
}

pub fn media_of(s: &str) -> Option<Media> {
    match trim_ws(s) {
        "" => None,
        "text/plain" => Some(Media::Plain),
        "application/json" => Some(Media::Json),
        _ => None,
    }
}

/// identity rule of Accept-Encoding; input is the value (already trimmed or not)
pub fn accept_encoding_fault(v: &str) -> Option<HFault> {
    if v.is_empty() {
        return Some(HFault::EmptyAcceptEncoding);
    }
    let mentions_identity = v.contains("identity");
    for item in v.split(',') {
        let t = trim_ws(item);
        if t == "identity;q=0" {
            return Some(HFault::IdentityExcluded);
        }
        if t == "*;q=0" && !mentions_identity {
            return Some(HFault::IdentityExcluded);
        }
    }
    None
}

/// Apply one header line (without CRLF) to `h`.
pub fn href_line(h: &mut RefHeaders, line: &[u8]) -> LineClass {
    let text = match std::str::from_utf8(line) {
        Ok(t) => t,
        Err(_) => return LineClass::Fatal(HFault::NonUtf8),
    };
    let colon = match text.find(':') {
        Some(i) => i,
        None => return LineClass::Fatal(HFault::NoColon),
    };
    let name_raw = &text[..colon];
    let value_raw = &text[colon + 1..];
    let key = ascii_lower(trim_ws(name_raw));
    let value = trim_ws(value_raw);
    match key.as_str() {
        "content-length" => match parse_u32_decimal(value) {
            Some(n) => {
                h.content_length = n;
                LineClass::Accepted
            }
            None => LineClass::Fatal(HFault::BadContentLength),
        },
        "content-type" => match media_of(value) {
            Some(_) => LineClass::Accepted,
            None => LineClass::Ignored,
        },
        "accept" => match media_of(value) {
            Some(m) => {
                h.accept = m;
                LineClass::Accepted
            }
            None => LineClass::Ignored,
        },
        "transfer-encoding" => match value {
            "chunked" => {
                h.chunked = true;
                LineClass::Accepted
            }
            "identity" => LineClass::Accepted,
            _ => LineClass::Ignored,
        },
        "expect" => match value {
            "100-continue" => {
                h.expect = true;
                LineClass::Accepted
            }
            _ => LineClass::Ignored,
        },
        "server" => LineClass::Accepted,
        "accept-encoding" => match accept_encoding_fault(value) {
            Some(f) => LineClass::Fatal(f),
            None => LineClass::Accepted,
        },
        _ => {
            h.custom
                .insert(trim_ws(name_raw).to_string(), value.to_string());
            LineClass::Accepted
        }
    }
}

/// Header block (lines separated by CRLF, stops at the first empty line).
pub fn href_block(block: &[u8]) -> Result<RefHeaders, HFault> {
    let mut h = RefHeaders::default();
    let mut i = 0;
    loop {
        // next line: up to CRLF or end of block
        let mut j = i;
        let mut found = None;
        while j + 1 < block.len() {
            if block[j] == b'\r' && block[j + 1] == b'\n' {
                found = Some(j);
                break;
            }
            j += 1;
        }
        let (line, next) = match found {
            Some(j) => (&block[i..j], j + 2),
            None => (&block[i..], block.len()),
        };
        if line.is_empty() {
            break;
        }
        if let LineClass::Fatal(f) = href_line(&mut h, line) {
            return Err(f);
        }
        if found.is_none() {
            break;
        }
        i = next;
    }
    Ok(h)
}

// ---------------------------------------------------------------------------------------

#[derive(Clone, Copy, Debug, PartialEq, Eq)]
pub enum RlFault {
    Shape,
    Method,
    Uri,
    Version,
}

#[derive(Clone, Debug, PartialEq, Eq)]
pub enum RefErr {
    ReqLine(RlFault),
    ReqLineTooLong,
    Header(HFault),
    Payload { limit: usize, n: usize },
}

#[derive(Clone, Debug, PartialEq, Eq)]
pub struct RefRequest {
    pub method: u8, // 0 GET 1 PUT 2 PATCH
    pub uri: Vec<u8>,
    pub version: u8, // 0 = 1.0, 1 = 1.1
    pub headers: RefHeaders,
    pub body: Option<Vec<u8>>,
    pub start: usize,
    pub headers_done_at: usize,
    pub complete_at: usize,
    pub wants_continue: bool,
    pub n_header_lines: usize,
}

#[derive(Clone, Debug, PartialEq, Eq)]
pub enum End {
    Incomplete,
    Error { err: RefErr, point: usize, in_request: usize },
}

pub const METHODS: [&[u8]; 3] = [b"GET", b"PUT", b"PATCH"];
pub const VERSIONS: [&[u8]; 2] = [b"HTTP/1.0", b"HTTP/1.1"];

pub fn ref_request_line(line: &[u8]) -> Result<(u8, Vec<u8>, u8), RlFault> {
    let sp1 = line.iter().position(|&c| c == b' ').ok_or(RlFault::Shape)?;
    let rest = &line[sp1 + 1..];
    let sp2 = rest.iter().position(|&c| c == b' ').ok_or(RlFault::Shape)?;
    let m = &line[..sp1];
    let uri = &rest[..sp2];
    let ver = &rest[sp2 + 1..];
    let method = METHODS.iter().position(|x| *x == m).ok_or(RlFault::Method)? as u8;
    if uri.is_empty() || std::str::from_utf8(uri).is_err() {
        return Err(RlFault::Uri);
    }
    let version = VERSIONS.iter().position(|x| *x == ver).ok_or(RlFault::Version)? as u8;
    Ok((method, uri.to_vec(), version))
}

enum Line {
    /// line content range [a, b), next line starts at b + 2
    Found(usize, usize),
    TooLong(usize), // decidable after this many stream bytes
    Incomplete,
}

fn next_line(s: &[u8], start: usize, b: usize) -> Line {
    // a CRLF must lie entirely within the first `b` bytes of the line
    let lim = (start + b).min(s.len());
    let mut i = start;
    while i + 1 < lim {
        if s[i] == b'\r' && s[i + 1] == b'\n' {
            return Line::Found(start, i);
        }
        i += 1;
    }
    if s.len() >= start + b {
        Line::TooLong(start + b)
    } else {
        Line::Incomplete
    }
}

/// Parse the whole stream. `b` = line limit (bytes incl. CRLF), `l` = payload limit.
pub fn ref_parse(s: &[u8], b: usize, l: usize) -> (Vec<RefRequest>, End) {
    let mut out = Vec::new();
    let mut pos = 0usize;
    loop {
        let start = pos;
        // request line
        let (a, e) = match next_line(s, pos, b) {
            Line::Found(a, e) => (a, e),
            Line::TooLong(p) => {
                return (out.clone(), End::Error { err: RefErr::ReqLineTooLong, point: p, in_request: out.len() })
            }
            Line::Incomplete => return (out, End::Incomplete),
        };
        pos = e + 2;
        let (method, uri, version) = match ref_request_line(&s[a..e]) {
            Ok(x) => x,
            Err(f) => {
                return (out.clone(), End::Error { err: RefErr::ReqLine(f), point: pos, in_request: out.len() })
            }
        };
        // headers
        let mut h = RefHeaders::default();
        let mut nlines = 0;
        loop {
            // blank line?
            if pos + 1 < s.len() && s[pos] == b'\r' && s[pos + 1] == b'\n' {
                pos += 2;
                break;
            }
            match next_line(s, pos, b) {
                Line::Found(a, e) => {
                    pos = e + 2;
                    nlines += 1;
                    if let LineClass::Fatal(f) = href_line(&mut h, &s[a..e]) {
                        return (out.clone(), End::Error { err: RefErr::Header(f), point: pos, in_request: out.len() });
                    }
                }
                Line::TooLong(p) => {
                    return (
                        out.clone(),
                        End::Error { err: RefErr::Header(HFault::LineTooLong), point: p, in_request: out.len() },
                    )
                }
                Line::Incomplete => return (out, End::Incomplete),
            }
        }
        let headers_done_at = pos;
        let n = h.content_length as usize;
        if n > l {
            return (
                out.clone(),
                End::Error { err: RefErr::Payload { limit: l, n }, point: headers_done_at, in_request: out.len() },
            );
        }
        let wants_continue = h.expect && n > 0;
        if s.len() < pos + n {
            // body not complete: the request is pending; but its interim response may be due
            out.push(RefRequest {
                method, uri, version, headers: h, body: None, start, headers_done_at,
                complete_at: usize::MAX, wants_continue, n_header_lines: nlines,
            });
            return (out, End::Incomplete);
        }
        let body = if n > 0 { Some(s[pos..pos + n].to_vec()) } else { None };
        pos += n;
        out.push(RefRequest {
            method, uri, version, headers: h, body, start, headers_done_at,
            complete_at: pos, wants_continue, n_header_lines: nlines,
        });
    }
}

/// Reference absolute path (C16).
pub fn ref_abs_path(uri: &str) -> &str {
    if let Some(rest) = uri.strip_prefix("http://") {
        match rest.find('/') {
            Some(i) => &rest[i..],
            None => "",
        }
    } else if uri.starts_with('/') {
        uri
    } else {
        ""
    }
}
