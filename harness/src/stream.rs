//! ScriptedStream (SS): an in-memory stream implementing `Read + Write + ScmSocket` whose
//! every receive and write is decided by the harness. `recv_with_fds` is overridden, so the
//! library never touches a descriptor through it.

use std::cell::RefCell;
use std::io::{self, Read, Write};
use std::os::unix::io::RawFd;
use std::rc::Rc;

use vmm_sys_util::errno;
use vmm_sys_util::sock_ctrl_msg::ScmSocket;

#[derive(Clone, Debug, PartialEq, Eq)]
pub enum ReadEv {
    /// deliver up to `want` bytes (at least 1 if any remain and the window is non-empty)
    Data { want: usize, fds: Vec<RawFd> },
    Eagain,
    Eintr,
    /// return 0 bytes (peer closed); descriptors may still ride on it
    Eof { fds: Vec<RawFd> },
    Errno(i32),
}

#[derive(Clone, Copy, Debug, PartialEq, Eq)]
pub enum WriteEv {
    /// accept `raw` mapped monotonically into 1..=len
    Accept(u16),
    /// accept everything
    All,
    Eintr,
    /// an interrupted write reported by kind only (no OS error number), as a wrapping stream may
    EintrKind,
    Eagain,
    Epipe,
    Zero,
}

#[derive(Clone, Debug)]
pub struct ReadRec {
    pub iov_len: usize,
    pub got: usize,
    /// room the connection offered for descriptors on this receive
    pub fd_room: usize,
    pub nfds: usize,
    pub kind: u8, // 0 data, 1 eagain, 2 eintr, 3 eof, 4 errno
}

#[derive(Default)]
pub struct Script {
    pub input: Vec<u8>,
    pub pos: usize,
    pub next_read: Option<ReadEv>,
    pub next_write: Option<WriteEv>,
    pub read_log: Vec<ReadRec>,
    pub out: Vec<u8>,
    pub recv_calls: usize,
    pub write_calls: usize,
    pub plain_read_calls: usize,
    pub flush_calls: usize,
    /// sizes offered to each write call
    pub write_offers: Vec<usize>,
    /// descriptor numbers actually handed to the connection
    pub handed_fds: Vec<RawFd>,
}

#[derive(Clone)]
pub struct ScriptedStream(pub Rc<RefCell<Script>>);

impl ScriptedStream {
    pub fn new(input: Vec<u8>) -> (Self, Rc<RefCell<Script>>) {
        let s = Rc::new(RefCell::new(Script {
            input,
            ..Default::default()
        }));
        (ScriptedStream(s.clone()), s)
    }
}

impl Read for ScriptedStream {
    fn read(&mut self, _buf: &mut [u8]) -> io::Result<usize> {
        self.0.borrow_mut().plain_read_calls += 1;
        Err(io::Error::from_raw_os_error(libc::EAGAIN))
    }
}

impl Write for ScriptedStream {
    fn write(&mut self, buf: &[u8]) -> io::Result<usize> {
        let mut s = self.0.borrow_mut();
        s.write_calls += 1;
        s.write_offers.push(buf.len());
        let ev = s.next_write.take().unwrap_or(WriteEv::Eagain);
        match ev {
            WriteEv::Accept(raw) => {
                if buf.is_empty() {
                    return Ok(0);
                }
                let k = 1 + ((raw as usize * buf.len()) >> 16);
                let k = k.min(buf.len());
                s.out.extend_from_slice(&buf[..k]);
                Ok(k)
            }
            WriteEv::All => {
                s.out.extend_from_slice(buf);
                Ok(buf.len())
            }
            WriteEv::Eintr => Err(io::Error::from_raw_os_error(libc::EINTR)),
            WriteEv::EintrKind => Err(io::Error::from(io::ErrorKind::Interrupted)),
            WriteEv::Eagain => Err(io::Error::from_raw_os_error(libc::EAGAIN)),
            WriteEv::Epipe => Err(io::Error::from_raw_os_error(libc::EPIPE)),
            WriteEv::Zero => Ok(0),
        }
    }
    fn flush(&mut self) -> io::Result<()> {
        self.0.borrow_mut().flush_calls += 1;
        Ok(())
    }
}

impl ScmSocket for ScriptedStream {
    fn socket_fd(&self) -> RawFd {
        -1
    }

    unsafe fn recv_with_fds(
        &self,
        iovecs: &mut [libc::iovec],
        in_fds: &mut [RawFd],
    ) -> errno::Result<(usize, usize)> {
        let mut s = self.0.borrow_mut();
        s.recv_calls += 1;
        let iov_len = iovecs.first().map(|v| v.iov_len).unwrap_or(0);
        // a second receive inside one try_read finds no event: would-block
        let ev = s.next_read.take().unwrap_or(ReadEv::Eagain);
        match ev {
            ReadEv::Data { want, fds } => {
                let remaining = s.input.len() - s.pos;
                let n = want.max(1).min(iov_len).min(remaining);
                if n == 0 {
                    // nothing to give (stream exhausted or no window): would-block
                    s.read_log.push(ReadRec { iov_len, got: 0, fd_room: in_fds.len(), nfds: 0, kind: 1 });
                    return Err(errno::Error::new(libc::EAGAIN));
                }
                let pos = s.pos;
                std::ptr::copy_nonoverlapping(
                    s.input[pos..pos + n].as_ptr(),
                    iovecs[0].iov_base as *mut u8,
                    n,
                );
                s.pos += n;
                let k = fds.len().min(in_fds.len());
                in_fds[..k].copy_from_slice(&fds[..k]);
                s.handed_fds.extend_from_slice(&fds[..k]);
                s.read_log.push(ReadRec { iov_len, got: n, fd_room: in_fds.len(), nfds: k, kind: 0 });
                Ok((n, k))
            }
            ReadEv::Eagain => {
                s.read_log.push(ReadRec { iov_len, got: 0, fd_room: in_fds.len(), nfds: 0, kind: 1 });
                Err(errno::Error::new(libc::EAGAIN))
            }
            ReadEv::Eintr => {
                s.read_log.push(ReadRec { iov_len, got: 0, fd_room: in_fds.len(), nfds: 0, kind: 2 });
                Err(errno::Error::new(libc::EINTR))
            }
            ReadEv::Eof { fds } => {
                let k = fds.len().min(in_fds.len());
                in_fds[..k].copy_from_slice(&fds[..k]);
                s.handed_fds.extend_from_slice(&fds[..k]);
                s.read_log.push(ReadRec { iov_len, got: 0, fd_room: in_fds.len(), nfds: k, kind: 3 });
                Ok((0, k))
            }
            ReadEv::Errno(e) => {
                s.read_log.push(ReadRec { iov_len, got: 0, fd_room: in_fds.len(), nfds: 0, kind: 4 });
                Err(errno::Error::new(e))
            }
        }
    }
}
