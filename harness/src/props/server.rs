//! Server-level properties on the world harness: C07, C08, C09, C10, C18 and the server
//! parts of C04, C11, C13.

use crate::engine::*;
use crate::src::{esc, fnv64, Src};
use crate::world::*;

fn spec_from(s: &mut Src, allow_expect: bool, big_bodies: bool) -> ReqSpec {
    let method = s.weighted(&[5, 4, 3]) as u8;
    let body = if method == 0 && !s.chance(40) {
        0
    } else {
        match s.weighted(&[6, 6, 3, if big_bodies { 2 } else { 0 }, 2]) {
            0 => 0,
            1 => s.range(1, 60),
            2 => s.range(900, 1200),
            4 => {
                // whole multiples of the server's receive window, and their neighbours
                let k = s.range(1, 4) * 1024;
                [k, k, k - 1, k + 1][s.below(4)]
            }
            _ => s.range(3000, 40000),
        }
    };
    ReqSpec {
        method,
        version: if s.chance(60) { 0 } else { 1 },
        body,
        expect: allow_expect && body > 0 && s.chance(70),
        extra_headers: s.below(3),
        body_kind: s.below(3),
    }
}

fn resp_size(s: &mut Src, big: bool) -> usize {
    match s.weighted(&[8, 6, 4, if big { 3 } else { 0 }, if big { 2 } else { 0 }, 2]) {
        0 => 0,
        5 => {
            // powers of two (where buffering strategies change) and their neighbours
            let k = 1usize << s.range(9, if big { 17 } else { 15 });
            [k, k, k - 1, k + 1][s.below(4)]
        }
        1 => s.range(20, 200),
        2 => s.range(1500, 5000),
        3 => s.range(60_000, 90_000),
        _ => s.range(250_000, 320_000),
    }
}

const CODES: [u16; 5] = [200, 404, 401, 501, 204];

fn shrink_sndbuf(w: &mut World) {
    w.sndbuf_shrunk = true;
    // environment parameter: the server's accepted sockets may have a small send buffer
    for fd in w.server_fds() {
        let v: libc::c_int = 2048;
        unsafe { libc::setsockopt(fd, libc::SOL_SOCKET, libc::SO_SNDBUF, &v as *const _ as *const libc::c_void, 4) };
    }
}

fn wfail(prop: &str, sig: &str, msg: String, w: &World) -> Fail {
    Fail::new(&format!("{}:{}", prop, sig), format!("{}\n--- history ---\n{}", msg, w.render()))
}

fn connected(w: &World) -> Vec<usize> {
    (0..w.clients.len()).filter(|c| w.clients[*c].state == CState::Connected).collect()
}

// =======================================================================================
// C08

fn c08_check_api(w: &World, from_poll: usize) -> Result<(), (String, String)> {
    for (i, r) in w.poll_results.iter().enumerate().skip(from_poll) {
        if let PollRes::Err(e) = r {
            return Err((format!("requests-err:{}", e), format!("requests() call #{} returned Err({})", i + 1, e)));
        }
    }
    if let Some(e) = w.api_errors.first() {
        return Err(("respond-err".into(), e.clone()));
    }
    if let Some(f) = w.yield_faults.first() {
        return Err(("yield".into(), f.clone()));
    }
    if let Some(u) = w.yielded_untagged.first() {
        return Err(("yield".into(), format!("a request nobody sent was yielded: {:?}", u)));
    }
    Ok(())
}

/// all complete requests yielded exactly once in order; all supplied responses received
fn c08_final(w: &mut World) -> Result<(), (String, String)> {
    for c in 0..w.clients.len() {
        let cl = &w.clients[c];
        if cl.state != CState::Connected {
            continue;
        }
        let want: Vec<usize> = (0..cl.composed.len()).collect();
        if cl.yielded != want {
            return Err(("lost-or-duplicated-request".into(), format!("client {} sent complete requests {:?}; yielded {:?}", c, want, cl.yielded)));
        }
        let a = audit_client(w, c)?;
        if !a.complete_in_order {
            return Err((
                "response-not-delivered".into(),
                format!("client {}: {} of {} supplied responses were received in full after settling (partial tail: {})", c, a.app_received, cl.expected.len(), a.partial),
            ));
        }
        let q = cl.composed.iter().filter(|r| r.qualifies_100).count();
        if a.n100 != q {
            return Err(("interim".into(), format!("client {} sent {} qualifying Expect requests and received {} interim responses", c, q, a.n100)));
        }
        if a.n400 + a.n500 + a.n503 > 0 {
            return Err(("server-error-response".into(), format!("client {} (well-behaved) received server-generated error responses: {:?}", c, a)));
        }
        if cl.eof || cl.reset {
            return Err(("disconnected".into(), format!("client {} kept its connection open but was disconnected", c)));
        }
    }
    Ok(())
}

fn c08_hist(input: &Input, obs: &mut Obs) -> Result<(), Fail> {
    let mut s = Src::new(input.bytes());
    world_variant(&mut s);
    let nclients = 1 + s.below(4);
    let mut w = World::new(nclients, false, obs.want_render).map_err(|e| Fail::new("harness-world", e))?;
    let skeleton = s.weighted(&[10, 3, 3, 3]);
    if s.chance(70) {
        w.unicode_headers = true;
        obs.label("multi-byte_characters_in_header_values");
    }
    let small_buf = s.chance(90);
    let big = s.chance(100);
    let nops = s.range(4, 50);
    let mut flushed = false;
    let mut had_expect = false;
    let mut had_big = false;
    let mut delayed = false;
    let mut pipelined = false;
    let r = (|| -> Result<(), (String, String)> {
        match skeleton {
            1 => {
                // respond, flush, more traffic
                w.connect(0);
                w.settle(1000, true);
                w.send_request(0, &spec_from(&mut s, false, false), &[]);
                w.settle(1000, true);
                if !w.outstanding.is_empty() {
                    w.respond(0, 200, s.range(0, 2000));
                    w.flush();
                    flushed = true;
                    w.read_client(0, usize::MAX);
                    let a = audit_client(&w, 0)?;
                    if !a.complete_in_order {
                        return Err(("flush-not-delivered".into(), "after flush_outgoing_writes the (small) response is not readable without polling".into()));
                    }
                }
            }
            2 => {
                // expect then body
                w.connect(0);
                w.settle(1000, true);
                let n = s.range(1, 3000);
                let spec = ReqSpec { method: 1 + s.below(2) as u8, version: s.below(2) as u8, body: n, expect: true, extra_headers: s.below(2), body_kind: 0 };
                // cut exactly at the header terminator
                let probe = w.compose(0, &spec);
                w.clients[0].composed.pop();
                let hdr_end = probe.len() - n;
                w.send_request(0, &spec, &[hdr_end]);
                had_expect = true;
                w.settle(1000, true);
                let a = audit_client(&w, 0)?;
                if a.n100 != 1 {
                    return Err(("interim".into(), format!("client withheld the body of an Expect request and received {} interim responses", a.n100)));
                }
            }
            3 => {
                // pipelined burst while a large response is half written
                w.connect(0);
                w.settle(1000, true);
                shrink_sndbuf(&mut w);
                w.send_request(0, &spec_from(&mut s, false, false), &[]);
                w.settle(1000, true);
                if !w.outstanding.is_empty() {
                    w.respond(0, 200, 300_000);
                    had_big = true;
                    w.poll();
                    w.poll();
                    for _ in 0..3 {
                        w.send_request(0, &spec_from(&mut s, true, false), &[]);
                    }
                    pipelined = true;
                }
            }
            _ => {}
        }
        for _ in 0..nops {
            let conn = connected(&w);
            let op = s.weighted(&[3, 10, 5, 5, 10, 8, 2, 2, 4, 2]);
            match op {
                0 => {
                    if let Some(c) = (0..nclients).find(|c| w.clients[*c].state == CState::Unconnected) {
                        w.connect(c);
                        if small_buf {
                            // the accept happens at the next poll; shrink after it
                        }
                    }
                }
                1 => {
                    if !conn.is_empty() {
                        let c = conn[s.below(conn.len())];
                        let spec = spec_from(&mut s, true, big);
                        let ncuts = s.weighted(&[6, 3, 2, 1]);
                        let mut cuts: Vec<usize> = (0..ncuts).map(|_| s.u16() as usize).collect();
                        let mut head_first = false;
                        if spec.body > 0 && s.chance(70) {
                            // the head on its own, read by the server before the body is sent
                            let probe = w.compose(c, &spec);
                            w.clients[c].composed.pop();
                            cuts = vec![probe.len() - spec.body];
                            head_first = w.clients[c].staged.is_empty() && w.clients[c].unsent.is_empty();
                        }
                        if spec.expect {
                            had_expect = true;
                        }
                        if !w.clients[c].staged.is_empty() || w.clients[c].composed.len() > w.clients[c].yielded.len() {
                            pipelined = true;
                        }
                        w.send_request(c, &spec, &cuts);
                        if head_first {
                            w.settle(1000, true);
                            w.send_next(c);
                            obs.label("body_sent_after_the_head_was_read");
                            if spec.body % 1024 == 0 {
                                obs.label("separately_sent_body_of_whole_windows");
                            }
                        }
                    }
                }
                2 => {
                    let staged: Vec<usize> = conn.iter().copied().filter(|c| !w.clients[*c].staged.is_empty() || !w.clients[*c].unsent.is_empty()).collect();
                    if !staged.is_empty() {
                        let c = staged[s.below(staged.len())];
                        w.send_next(c);
                    } else if !conn.is_empty() && s.chance(60) {
                        // drip: a request arrives in many small pieces with a poll after each
                        let c = conn[s.below(conn.len())];
                        let spec = spec_from(&mut s, true, false);
                        let step = s.range(1, 9);
                        let cuts: Vec<usize> = (1..200).map(|k| k * step).collect();
                        if spec.expect {
                            had_expect = true;
                        }
                        w.send_request(c, &spec, &cuts);
                        let mut guard = 0;
                        while !w.clients[c].staged.is_empty() && guard < 400 {
                            guard += 1;
                            w.poll();
                            w.send_next(c);
                        }
                        obs.label("request_dripped_in_small_pieces_with_polls");
                    }
                }
                3 => {
                    if !conn.is_empty() {
                        let c = conn[s.below(conn.len())];
                        let max = [usize::MAX, 1, 100, 5000][s.below(4)];
                        w.read_client(c, max);
                    }
                }
                4 => {
                    w.poll();
                    if small_buf {
                        shrink_sndbuf(&mut w);
                    }
                }
                5 => {
                    if !w.outstanding.is_empty() {
                        let k = s.below(w.outstanding.len());
                        if k + 1 < w.outstanding.len() {
                            delayed = true;
                        }
                        // (now and then a response whose body is set and empty: Content-Length 0)
                        let size = if s.chance(16) { usize::MAX } else { resp_size(&mut s, big) };
                        if size != usize::MAX && (size > 200_000 || (small_buf && size > 3000)) {
                            had_big = true;
                        }
                        if size == usize::MAX {
                            obs.label("response_with_explicitly_empty_body");
                        }
                        w.respond(k, CODES[s.below(CODES.len())], size);
                    }
                }
                6 => {
                    if w.outstanding.len() >= 2 {
                        let n = s.range(2, w.outstanding.len().min(4));
                        let ks: Vec<usize> = (0..n).map(|_| s.below(w.outstanding.len())).collect();
                        w.respond_batch(&ks, 200, s.range(0, 300));
                    }
                }
                7 => {
                    // flush is only sound when everything queued fits the socket buffers
                    let safe = (0..nclients).all(|c| {
                        let cl = &w.clients[c];
                        let pending: usize = cl.expected.iter().map(|e| e.bytes.len()).sum::<usize>() + 64 * cl.composed.len();
                        pending < cl.recv.len() + 1500 && cl.state != CState::Closed
                    }) && !w.sndbuf_shrunk
                        || (0..nclients).all(|c| w.clients[c].expected.is_empty());
                    if safe {
                        w.flush();
                        flushed = true;
                        for c in connected(&w) {
                            w.read_client(c, usize::MAX);
                            let a = audit_client(&w, c)?;
                            if !a.complete_in_order {
                                return Err(("flush-not-delivered".into(), format!("after flush_outgoing_writes client {} cannot read its queued (small) responses without polling", c)));
                            }
                        }
                    }
                }
                8 => {
                    let b = w.progress_bound();
                    let (_, over) = w.settle(b, true);
                    if over {
                        return Err(("spin".into(), format!("settling needed more than {} requests() calls: the epoll descriptor keeps signalling without progress", b)));
                    }
                }
                _ => {
                    // sizes that line up with the server's 1024-byte reads, and long pipelined bursts
                    if !conn.is_empty() {
                        let c = conn[s.below(conn.len())];
                        let quiet = w.clients[c].staged.is_empty() && w.clients[c].unsent.is_empty() && w.clients[c].composed.len() == w.clients[c].yielded.len();
                        if s.chance(128) {
                            if quiet {
                                // the server has read everything so far: this request fills k reads exactly
                                let total = 1024 * s.range(1, 4) - [0usize, 0, 1, 23][s.below(4)];
                                // (the pad header takes what the body leaves, at most 1000 bytes)
                                let body = if total > 1100 { total - s.range(120, 900) } else { 0 };
                                let spec = ReqSpec { method: if body > 0 { 1 } else { 0 }, version: 1, body, expect: body > 0 && s.chance(80), extra_headers: 0, body_kind: 0 };
                                if w.send_request_sized(c, &spec, total) {
                                    obs.label("request_sized_to_fill_reads_exactly");
                                    // possibly a second request right behind, completing the alignment case
                                    if s.chance(100) {
                                        let g = ReqSpec { method: 0, version: 1, body: 0, expect: false, extra_headers: 0, body_kind: 0 };
                                        w.send_request(c, &g, &[]);
                                    }
                                }
                            }
                        } else if s.chance(40) {
                            let g = ReqSpec { method: 0, version: 1, body: 0, expect: false, extra_headers: 0, body_kind: 0 };
                            for _ in 0..s.range(130, 180) {
                                w.send_request(c, &g, &[]);
                            }
                            pipelined = true;
                            obs.label("burst_of_130+_pipelined_requests");
                        }
                    }
                }
            }
            c08_check_api(&w, 0)?;
        }
        // finish: answer everything, settle, and judge
        let mut rounds = 0;
        loop {
            rounds += 1;
            let b = w.progress_bound();
            let (_, over) = w.settle(b, true);
            c08_check_api(&w, 0)?;
            if over {
                return Err(("spin".into(), format!("final settling needed more than {} requests() calls", b)));
            }
            if w.outstanding.is_empty() {
                break;
            }
            while !w.outstanding.is_empty() {
                let k = s.below(w.outstanding.len());
                w.respond(k, 200, s.range(0, 400));
            }
            if rounds > 50 {
                return Err(("no-quiescence".into(), "requests keep appearing".into()));
            }
        }
        c08_check_api(&w, 0)?;
        c08_final(&mut w)?;
        // quiescence: nothing unread, unsent or unanswered => epoll silent
        if w.epoll_ready() {
            return Err(("spurious-readiness".into(), "no client input, unsent output or unanswered request remains, yet the epoll descriptor signals readiness".into()));
        }
        Ok(())
    })();
    let nconn = connected(&w).len();
    obs.nontrivial = (nconn >= 2 || pipelined) && (delayed || had_big || had_expect || flushed);
    if flushed {
        obs.label("flush");
    }
    if had_expect {
        obs.label("expect_request");
    }
    if had_big {
        obs.label("response_larger_than_socket_buffer");
    }
    if delayed {
        obs.label("response_out_of_order_or_delayed");
    }
    if pipelined {
        obs.label("pipelined");
    }
    if nconn >= 2 {
        obs.label("multi_client");
    }
    if small_buf {
        obs.label("small_sndbuf");
    }
    obs.case_hash = Some(fnv64(input.bytes()));
    if obs.want_render {
        obs.render = w.render();
    }
    match r {
        Ok(()) => Ok(()),
        Err((sig, msg)) => Err(wfail("C08", &sig, msg, &w)),
    }
}

fn c08_plan(tier: Tier) -> Vec<Job> {
    let q = tier == Tier::Quick;
    vec![
        Job { sub: "hist", kind: JobKind::Pbt { cases: if q { 40_000 } else { 800_000 }, max_len: 700 }, smallbuf: false },
        Job { sub: "flood", kind: JobKind::Enum { f: c08_flood_enum, bound: "65535, 65536 and 65537 unanswered requests of one well-behaved client (plus one of another client in the same batch), both accept orders" }, smallbuf: false },
    ]
}

fn c08_flood_enum(_tier: Tier, shard: u64, nshards: u64, f: &mut dyn FnMut(&[u64]) -> bool) {
    let mut c = 0u64;
    for n in [65535u64, 65536, 65537] {
        for order in 0..2u64 {
            c += 1;
            if c % nshards == shard && !f(&[n, order]) {
                return;
            }
        }
    }
}

pub fn c08() -> PropDef {
    PropDef {
        id: "C08",
        subs: vec![("hist", c08_hist), ("flood", c08_flood)],
        plan: c08_plan,
        rule: "case = history over 1..4 clients that never close and send only well-formed tagged requests (split at arbitrary points, pipelined, with/without body and Expect), client reads of arbitrary size, application responses immediate/delayed/batched/out of order with sizes from a few bytes to 320 KB (optionally with the server-side SO_SNDBUF shrunk), flush_outgoing_writes when everything queued is small, explicit polls and settles; requests() is only called when poll(2) reports the epoll descriptor readable; oracle = every API call Ok, each request yielded exactly once with the composed content, every supplied response received byte-exact in order, interim responses exactly for qualifying requests, settle within the progress bound, epoll silent at quiescence, flush delivers without polling; non-trivial = (>=2 clients or pipelining) and (delayed/out-of-order response, response larger than the socket buffer, Expect request or flush)",
        assumptions: vec![
            "flush_outgoing_writes is only issued when all queued output fits the socket buffers (the statement promises delivery only for that case)",
            "bounded liveness: settle must finish within a bound computed from the bytes in flight (DESIGN 6)",
        ],
        single_threaded_world: true,
    }
}

// =======================================================================================
// C09

/// one witness round trip within a poll budget
fn witness_roundtrip(w: &mut World, wit: usize, s: &mut Src, budget: usize) -> Result<(), (String, String)> {
    if w.clients[wit].state != CState::Connected {
        return Ok(());
    }
    let spec = ReqSpec { method: s.below(3) as u8, version: 1, body: if s.chance(128) { s.range(1, 200) } else { 0 }, expect: false, extra_headers: 1, body_kind: 0 };
    let spec = if spec.method == 0 { ReqSpec { body: 0, ..spec } } else { spec };
    w.send_request(wit, &spec, &[]);
    let j = w.clients[wit].composed.len() - 1;
    let mut polls = 0;
    let mut responded = false;
    loop {
        // witness progress?
        w.flush_client(wit);
        w.read_client(wit, usize::MAX);
        if !responded {
            if let Some(k) = w.outstanding.iter().position(|o| o.c == wit && o.j == j) {
                let size = s.range(0, 3000);
                if !w.respond(k, 200, size) {
                    return Err(("respond-err".into(), w.api_errors.last().cloned().unwrap_or_default()));
                }
                responded = true;
            }
        }
        if responded {
            let a = audit_client(w, wit)?;
            if a.complete_in_order {
                return Ok(());
            }
        }
        if polls >= budget {
            return Err((
                "witness-starved".into(),
                format!("the witness client's request r{} was {} within {} requests() calls", j, if responded { "answered by the application but the response was not delivered" } else { "not yielded" }, budget),
            ));
        }
        match w.poll() {
            PollRes::NotReady => {
                return Err(("witness-stalled".into(), format!("witness round trip r{} incomplete (responded={}) but the epoll descriptor is silent", j, responded)));
            }
            PollRes::Err(e) => return Err((format!("requests-err:{}", e), format!("requests() returned Err({}) while serving the witness", e))),
            PollRes::Ok(_) => {}
        }
        polls += 1;
    }
}

/// single malformed request lines (complete, CRLF-terminated)
const GARBAGE_LINES: [&[u8]; 4] = [b"BADMETHOD / HTTP/1.1\r\n", b"GET /x HTTP/9.9\r\n", b"GET\r\n", b"\0\xff\xfe garbage\r\n"];

/// well-formed requests whose URI has a multi-byte character at every small offset (they are
/// yielded, without a tag; an adversary may send them like anything else)
const ODD_VALID: [&[u8]; 8] = [
    b"GET /\xc3\xa9 HTTP/1.1\r\n\r\n",
    b"GET /a\xc3\xa9 HTTP/1.1\r\n\r\n",
    b"GET /ab\xc3\xa9/x HTTP/1.1\r\n\r\n",
    b"GET /abc\xc3\xa9/x HTTP/1.1\r\n\r\n",
    b"GET /abcd\xc3\xa9/x HTTP/1.1\r\n\r\n",
    b"GET /abcde\xc3\xa9/x HTTP/1.1\r\n\r\n",
    b"GET /abcdef\xe4\xb8\xad/x HTTP/1.1\r\n\r\n",
    b"GET http:/\xc3\xa9/x HTTP/1.1\r\n\r\n",
];

const GARBAGE: [&[u8]; 12] = [
    b"PUT / HTTP/1.1\r\nContent-Length: 18446744073709551616\r\n\r\n",
    b"PUT / HTTP/1.1\r\nContent-Length: 99999999999999999999999999999999999999999\r\n\r\n",
    b"PUT / HTTP/1.1\r\nContent-Length: 18446744073709551615\r\n\r\n",
    b"PUT / HTTP/1.1\r\nContent-Length: 4294967296\r\n\r\n",
    b"\0\xff\xfe garbage\r\n",
    b"BADMETHOD / HTTP/1.1\r\n\r\n",
    b"GET /x HTTP/9.9\r\n\r\n",
    b"GET / HTTP/1.1\r\nnocolon\r\n\r\n",
    b"PUT / HTTP/1.1\r\nContent-Length: 99999999\r\n\r\n",
    b"PUT / HTTP/1.1\r\nContent-Length: abc\r\n\r\n",
    b"\r\n\r\n",
    b"GET / HTTP/1.1\r\nAccept-Encoding: identity;q=0\r\n\r\n",
];

fn adversary_op(w: &mut World, s: &mut Src, a: usize, obs: &mut Obs) {
    if w.clients[a].state == CState::Unconnected {
        w.connect(a);
        return;
    }
    if w.clients[a].state != CState::Connected {
        return;
    }
    match s.weighted(&[10, 4, 4, 2, 3, 3, 3, 1]) {
        0 => {
            let spec = spec_from(s, true, false);
            let n = if s.chance(6) {
                // a long pipelined burst that the application leaves unanswered for a while
                obs.label("adversary_burst_of_150+_requests");
                s.range(130, 200)
            } else {
                1 + s.weighted_n(3)
            };
            let spec = if n > 10 { ReqSpec { method: 0, version: 1, body: 0, expect: false, extra_headers: 0, body_kind: 0 } } else { spec };
            for _ in 0..n {
                w.send_request(a, &spec, &[]);
            }
        }
        1 => {
            w.clients[a].dirty = true;
            if s.chance(60) {
                // long binary garbage: an over-long header line full of non-UTF-8 bytes, at several alignments
                let mut g = b"GET / HTTP/1.1\r\n".to_vec();
                g.extend(std::iter::repeat(b'X').take(s.below(4)));
                let kind = s.below(3);
                let n = s.range(1000, 2600);
                match kind {
                    0 => g.extend(std::iter::repeat(0xffu8).take(n)),
                    1 => g.extend(crate::src::filler(1, s.u8(), n)),
                    _ => {
                        for i in 0..n {
                            g.push(if i % 3 == 0 { 0xe2 } else { b'a' });
                        }
                    }
                }
                w.send_raw(a, &g);
                obs.label("adversary_long_binary_garbage");
            } else {
                let g = if s.chance(70) { ODD_VALID[s.below(ODD_VALID.len())] } else { GARBAGE[s.below(GARBAGE.len())] };
                w.send_raw(a, g);
            }
            obs.label("adversary_garbage");
        }
        2 => {
            // partial request
            let spec = spec_from(s, false, false);
            let cut = s.u16() as usize;
            w.send_request(a, &spec, &[cut]);
            w.clients[a].dirty = true;
        }
        3 => {
            w.clients[a].dirty = true;
            w.send_raw(a, b"PUT /big HTTP/1.1\r\nContent-Length: 4000000000\r\n\r\n");
            obs.label("adversary_oversized_declaration");
        }
        4 => {
            w.shutdown_client(a, libc::SHUT_RD);
            obs.label("adversary_shut_rd");
        }
        5 => {
            w.shutdown_client(a, libc::SHUT_WR);
            obs.label("adversary_shut_wr");
        }
        6 => {
            w.close_client(a);
            obs.label("adversary_close");
        }
        _ => {
            w.shutdown_client(a, libc::SHUT_RDWR);
        }
    }
}

fn c09_hist(input: &Input, obs: &mut Obs) -> Result<(), Fail> {
    let mut s = Src::new(input.bytes());
    world_variant(&mut s);
    let nadv = 1 + s.below(3);
    let n = 1 + nadv;
    let mut w = World::new(n + 3, false, obs.want_render).map_err(|e| Fail::new("harness-world", e))?;
    let wit = 0usize;
    let budget = 64;
    let skeleton = s.weighted(&[10, 4, 3, 3]);
    let mut died_in_flight = false;
    let mut trips_after = 0;
    let r = (|| -> Result<(), (String, String)> {
        // now and then an adversary's connection request is already waiting when the witness connects
        if s.chance(70) {
            for a in 1..=1 + s.below(nadv) {
                w.connect(a);
            }
            obs.label("connections_waiting_when_the_witness_connects");
        }
        w.connect(wit);
        w.settle(200, false);
        witness_roundtrip(&mut w, wit, &mut s, budget)?;
        match skeleton {
            1 => {
                // write failure while requests are in flight, then further readiness
                let a = 1;
                w.connect(a);
                w.settle(200, false);
                w.shutdown_client(a, libc::SHUT_RD);
                let spec = ReqSpec { method: 0, version: 1, body: 0, expect: false, extra_headers: 0, body_kind: 0 };
                let k = s.range(2, 4);
                for _ in 0..k {
                    w.send_request(a, &spec, &[]);
                }
                w.settle(200, false);
                if let Some(k) = w.outstanding.iter().position(|o| o.c == a) {
                    w.respond(k, 200, s.range(0, 100));
                    died_in_flight = w.outstanding.iter().any(|o| o.c == a);
                    obs.label("write_failure_with_requests_in_flight");
                }
            }
            2 => {
                // hang-up with queued output
                let a = 1;
                w.connect(a);
                w.settle(200, false);
                let spec = ReqSpec { method: 0, version: 1, body: 0, expect: false, extra_headers: 0, body_kind: 0 };
                w.send_request(a, &spec, &[]);
                w.send_request(a, &spec, &[]);
                w.settle(200, false);
                shrink_sndbuf(&mut w);
                if let Some(k) = w.outstanding.iter().position(|o| o.c == a) {
                    w.respond(k, 200, 300_000);
                    w.poll();
                    w.close_client(a);
                    died_in_flight = w.outstanding.iter().any(|o| o.c == a);
                    obs.label("hangup_with_queued_output");
                }
            }
            3 => {
                // garbage then close
                let a = 1;
                w.connect(a);
                w.settle(200, false);
                w.clients[a].dirty = true;
                w.send_raw(a, GARBAGE[s.below(GARBAGE.len())]);
                if s.chance(128) {
                    w.settle(200, false);
                }
                w.close_client(a);
                obs.label("garbage_then_close");
            }
            _ => {}
        }
        let nops = s.range(3, 40);
        for _ in 0..nops {
            match s.weighted(&[12, 5, 5, 4, 2, 2]) {
                5 => {
                    // the application flushes instead of waiting for the next poll (only sound
                    // while no socket buffer was shrunk: the witness' small responses then fit)
                    if !w.sndbuf_shrunk {
                        w.flush();
                        obs.label("flush_outgoing_writes");
                        if let Some(e) = w.api_errors.first() {
                            return Err(("respond-err".into(), e.clone()));
                        }
                    }
                }
                0 => {
                    let a = 1 + s.below(nadv);
                    let had_inflight = w.outstanding.iter().any(|o| o.c == a);
                    let before = w.clients[a].state == CState::Connected && !w.clients[a].shut_rd && !w.clients[a].shut_wr;
                    adversary_op(&mut w, &mut s, a, obs);
                    let after = w.clients[a].state == CState::Connected && !w.clients[a].shut_rd && !w.clients[a].shut_wr;
                    if before && !after && had_inflight {
                        died_in_flight = true;
                        obs.label("adversary_died_with_requests_in_flight");
                    }
                }
                1 => {
                    match w.poll() {
                        PollRes::Err(e) => return Err((format!("requests-err:{}", e), format!("requests() returned Err({})", e))),
                        _ => {}
                    }
                }
                2 => {
                    // answer an adversary's request (possibly long after it died)
                    let ks: Vec<usize> = w.outstanding.iter().enumerate().filter(|(_, o)| o.c != wit).map(|(i, _)| i).collect();
                    if !ks.is_empty() {
                        let k = ks[s.below(ks.len())];
                        let c = w.outstanding[k].c;
                        let dead = w.clients[c].state != CState::Connected || w.clients[c].shut_rd || w.clients[c].shut_wr;
                        if dead {
                            obs.label("late_answer_to_dead_adversary");
                        }
                        let size = resp_size(&mut s, true);
                        if !w.respond(k, 200, size) {
                            return Err(("respond-err".into(), w.api_errors.last().cloned().unwrap_or_default()));
                        }
                        if size > 200_000 {
                            obs.label("adversary_not_reading_output_larger_than_socket_buffer");
                        }
                    }
                }
                3 => {
                    witness_roundtrip(&mut w, wit, &mut s, budget)?;
                    if died_in_flight {
                        trips_after += 1;
                    }
                }
                _ => {
                    let (_, _) = w.settle(64, true);
                    if let Some(PollRes::Err(e)) = w.poll_results.last() {
                        return Err((format!("requests-err:{}", e), format!("requests() returned Err({})", e)));
                    }
                }
            }
        }
        witness_roundtrip(&mut w, wit, &mut s, budget)?;
        if died_in_flight {
            trips_after += 1;
        }
        // release: answer everything that was yielded, make every adversary dead, settle
        let answer_all = !s.chance(60);
        if answer_all {
            while let Some(k) = w.outstanding.iter().position(|o| o.c != wit) {
                if !w.respond(k, 200, 10) {
                    return Err(("respond-err".into(), w.api_errors.last().cloned().unwrap_or_default()));
                }
            }
            w.answer_untagged();
            // unwritable (SHUT_RD) adversaries are released once a write was attempted and
            // everything is answered; the others are closed by the harness now
            for a in 1..n + 3 {
                // (a response supplied after the shutdown guarantees a failing write)
                // and only while the server's socket stays writable: a client that stopped reading with
                // a lot of unread output looks like a slow reader and can never be told apart)
                let write_must_fail = w.clients[a].shut_rd
                    && w.clients[a].expected.len() > w.clients[a].shut_rd_expected
                    && w.clients[a].shut_rd_unread < 8000
                    && !w.sndbuf_shrunk;
                if w.clients[a].state == CState::Connected && !write_must_fail {
                    w.close_client(a);
                }
            }
            w.settle(200, true);
            if let Some(PollRes::Err(e)) = w.poll_results.last() {
                return Err((format!("requests-err:{}", e), format!("requests() returned Err({})", e)));
            }
            witness_roundtrip(&mut w, wit, &mut s, budget)?;
            let held = w.held();
            if held != 1 {
                return Err(("not-released".into(), format!("every adversary is dead and every yielded request answered, yet the server holds {} connection descriptors besides listener and epoll (expected 1: the witness)", held)));
            }
            obs.label("release_checked");
        }
        for (i, pr) in w.poll_results.iter().enumerate() {
            if let PollRes::Err(e) = pr {
                return Err((format!("requests-err:{}", e), format!("requests() call #{} returned Err({})", i + 1, e)));
            }
        }
        // nobody may have received foreign data (C07's subject, cheap to keep on)
        Ok(())
    })();
    obs.nontrivial = died_in_flight && trips_after > 0;
    obs.case_hash = Some(fnv64(input.bytes()));
    if obs.want_render {
        obs.render = w.render();
    }
    match r {
        Ok(()) => Ok(()),
        Err((sig, msg)) => Err(wfail("C09", &sig, msg, &w)),
    }
}

/// E2: every applicable sequence of adversary macro-operations; after each one the witness must
/// complete a round trip. params = operation codes.
/// 0 connect 1 one request 2 two pipelined requests 3 garbage 4 partial request 5 shutdown(RD)
/// 6 shutdown(WR) 7 close 8 answer the adversary's oldest request 9 answer it with 300 KB
/// 10 answer it and flush_outgoing_writes
fn c09_macro(input: &Input, obs: &mut Obs) -> Result<(), Fail> {
    // construction variant fixed for this sub (replays must not depend on earlier cases)
    SERVER_FROM_FD.with(|c| c.set(false));
    KILL_AFTER_START.with(|c| c.set(false));
    let ops = input.params();
    let mut w = World::new(6, false, obs.want_render).map_err(|e| Fail::new("harness-world", e))?;
    let wit = 0usize;
    let mut adv = 1usize;
    // the witness' own choices are a fixed function of the position
    let seedbytes: Vec<u8> = crate::src::filler(1, ops.len() as u8, 64);
    let mut s = Src::new(&seedbytes);
    let mut died_in_flight = false;
    let mut trips_after = 0;
    let spec = ReqSpec { method: 0, version: 1, body: 0, expect: false, extra_headers: 0, body_kind: 0 };
    let r = (|| -> Result<(), (String, String)> {
        w.connect(wit);
        w.settle(100, false);
        for op in ops {
            let alive_before = w.clients[adv].state == CState::Connected && !w.clients[adv].shut_rd && !w.clients[adv].shut_wr;
            let inflight = w.outstanding.iter().any(|o| o.c == adv);
            match *op {
                0 => {
                    if w.clients[adv].state == CState::Closed && adv + 1 < 6 {
                        adv += 1;
                    }
                    w.connect(adv);
                }
                1 => w.send_request(adv, &spec, &[]),
                2 => {
                    w.send_request(adv, &spec, &[]);
                    w.send_request(adv, &spec, &[]);
                }
                3 => {
                    w.clients[adv].dirty = true;
                    w.send_raw(adv, if ops.len() % 3 == 2 { ODD_VALID[ops.len() % ODD_VALID.len()] } else { GARBAGE[ops.len() % GARBAGE.len()] });
                }
                4 => {
                    w.send_request(adv, &ReqSpec { method: 1, version: 1, body: 50, expect: false, extra_headers: 1, body_kind: 0 }, &[30]);
                    w.clients[adv].staged.clear();
                    w.clients[adv].dirty = true;
                }
                5 => w.shutdown_client(adv, libc::SHUT_RD),
                6 => w.shutdown_client(adv, libc::SHUT_WR),
                7 => w.close_client(adv),
                8 | 9 | 10 => {
                    if let Some(k) = w.outstanding.iter().position(|o| o.c != wit) {
                        if !w.respond(k, 200, if *op == 9 { 300_000 } else { 20 }) {
                            return Err(("respond-err".into(), w.api_errors.last().cloned().unwrap_or_default()));
                        }
                        if *op == 10 {
                            // delivered by flush_outgoing_writes instead of the next poll
                            w.flush();
                        }
                    }
                }
                _ => {}
            }
            let alive_after = w.clients[adv].state == CState::Connected && !w.clients[adv].shut_rd && !w.clients[adv].shut_wr;
            if alive_before && !alive_after && inflight {
                died_in_flight = true;
            }
            // one poll may or may not happen before the witness acts (position parity decides)
            if ops.len() % 2 == 0 {
                if let PollRes::Err(e) = w.poll() {
                    return Err((format!("requests-err:{}", e), format!("requests() returned Err({})", e)));
                }
            }
            witness_roundtrip(&mut w, wit, &mut s, 64)?;
            if died_in_flight {
                trips_after += 1;
            }
        }
        while let Some(k) = w.outstanding.iter().position(|o| o.c != wit) {
            if !w.respond(k, 200, 10) {
                return Err(("respond-err".into(), w.api_errors.last().cloned().unwrap_or_default()));
            }
        }
        w.answer_untagged();
        for a in 1..6 {
            w.close_client(a);
        }
        w.settle(200, true);
        witness_roundtrip(&mut w, wit, &mut s, 64)?;
        for (i, pr) in w.poll_results.iter().enumerate() {
            if let PollRes::Err(e) = pr {
                return Err((format!("requests-err:{}", e), format!("requests() call #{} returned Err({})", i + 1, e)));
            }
        }
        let held = w.held();
        if held != 1 {
            return Err(("not-released".into(), format!("the adversary is closed and everything yielded is answered, yet the server holds {} connection descriptors besides listener and epoll (expected 1: the witness)", held)));
        }
        Ok(())
    })();
    obs.nontrivial = died_in_flight && trips_after > 0;
    if died_in_flight {
        obs.label("adversary_died_with_requests_in_flight");
    }
    if obs.want_render {
        obs.render = format!("ops={:?}\n{}", ops, w.render());
    }
    match r {
        Ok(()) => Ok(()),
        Err((sig, msg)) => Err(wfail("C09", &sig, msg, &w)),
    }
}

fn c09_macro_enum(tier: Tier, shard: u64, nshards: u64, f: &mut dyn FnMut(&[u64]) -> bool) {
    let depth = if tier == Tier::Quick { 6 } else { 8 };
    // abstract adversary state: 0 none, 1 connected, 2 shut-rd, 3 shut-wr, 4 closed; pending requests estimate
    fn rec(depth: usize, st: u8, pending: u8, connects: u8, seq: &mut Vec<u64>, counter: &mut u64, shard: u64, nshards: u64, f: &mut dyn FnMut(&[u64]) -> bool, stop: &mut bool) {
        if *stop {
            return;
        }
        if !seq.is_empty() {
            *counter += 1;
            if *counter % nshards == shard && !f(seq) {
                *stop = true;
                return;
            }
        }
        if seq.len() == depth {
            return;
        }
        for op in 0..11u64 {
            let (ok, nst, npend, nconn) = match op {
                10 => (pending > 0 && st != 4, st, pending - pending.min(1), connects),
                0 => ((st == 0 || st == 4) && connects < 3, 1, pending, connects + 1),
                1 => (st == 1 || st == 2, st, (pending + 1).min(3), connects),
                2 => (st == 1 || st == 2, st, (pending + 2).min(3), connects),
                3 => (st == 1 || st == 2, st, pending, connects),
                4 => (st == 1, st, pending, connects),
                5 => (st == 1, 2, pending, connects),
                6 => (st == 1 || st == 2, 3, pending, connects),
                7 => (st != 0 && st != 4, 4, pending, connects),
                8 => (pending > 0, st, pending - pending.min(1), connects),
                _ => (pending > 0 && st != 4, st, pending - pending.min(1), connects),
            };
            if ok {
                seq.push(op);
                rec(depth, nst, npend, nconn, seq, counter, shard, nshards, f, stop);
                seq.pop();
            }
        }
    }
    let mut seq = Vec::new();
    let mut counter = 0;
    let mut stop = false;
    rec(depth, 0, 0, 0, &mut seq, &mut counter, shard, nshards, f, &mut stop);
}

/// The same promise at connection capacity: bystanders keep the server full, one client goes
/// away with requests in flight, newcomers knock, the answers come late. Whatever happens to the
/// newcomers (C10 judges that), nobody receives anything foreign, the witness is served, and
/// once the answers are in the slot is free again.
fn c09_cap(input: &Input, obs: &mut Obs) -> Result<(), Fail> {
    let mut s = Src::new(input.bytes());
    world_variant(&mut s);
    KILL_AFTER_START.with(|c| c.set(false));
    let mut w = World::new(16, false, obs.want_render).map_err(|e| Fail::new("harness-world", e))?;
    let wit = 0usize;
    let budget = 64;
    let mut trips_after = 0;
    let spec = ReqSpec { method: 0, version: 1, body: 0, expect: false, extra_headers: 0, body_kind: 0 };
    let r = (|| -> Result<(), (String, String)> {
        w.connect(wit);
        w.settle(200, false);
        let total = s.range(8, 10); // connections open at once, the witness included
        for c in 1..total {
            w.connect(c);
            if s.chance(128) {
                w.settle(100, false);
            }
        }
        w.settle(200, false);
        witness_roundtrip(&mut w, wit, &mut s, budget)?;
        let victim = 1 + s.below(total - 1);
        let k = s.range(1, 3);
        for _ in 0..k {
            w.send_request(victim, &spec, &[]);
        }
        if s.chance(60) {
            // a bystander has a request in flight too
            let other = 1 + s.below(total - 1);
            if other != victim {
                w.send_request(other, &spec, &[]);
            }
        }
        w.settle(200, false);
        match s.below(3) {
            0 => w.close_client(victim),
            1 => w.shutdown_client(victim, libc::SHUT_RDWR),
            _ => w.shutdown_client(victim, libc::SHUT_WR),
        }
        if s.chance(160) {
            w.settle(200, false);
        }
        obs.label("client_left_with_requests_in_flight_at_capacity");
        let mut next = total;
        let newcomers = s.range(1, 3);
        for _ in 0..newcomers {
            w.connect(next);
            if s.chance(128) {
                w.send_request(next, &spec, &[]);
            }
            next += 1;
            if s.chance(128) {
                w.settle(200, false);
            }
        }
        w.settle(200, false);
        if total == 10 {
            obs.label("newcomer_at_full_capacity");
        }
        witness_roundtrip(&mut w, wit, &mut s, budget)?;
        trips_after += 1;
        // late answers to the client that left, any order
        while let Some(kk) = w.outstanding.iter().position(|o| o.c == victim) {
            let size = resp_size(&mut s, false);
            if !w.respond(kk, 200, size) {
                return Err(("respond-err".into(), w.api_errors.last().cloned().unwrap_or_default()));
            }
            if s.chance(100) {
                match w.poll() {
                    PollRes::Err(e) => return Err((format!("requests-err:{}", e), format!("requests() returned Err({})", e))),
                    _ => {}
                }
            }
        }
        w.settle(300, false);
        // answer whatever the others have outstanding, then everybody reads
        while let Some(kk) = w.outstanding.iter().position(|o| o.c != wit) {
            if !w.respond(kk, 200, s.range(0, 200)) {
                return Err(("respond-err".into(), w.api_errors.last().cloned().unwrap_or_default()));
            }
        }
        w.settle(300, false);
        for c in 0..next {
            w.read_client(c, usize::MAX);
            audit_client(&w, c)?;
        }
        witness_roundtrip(&mut w, wit, &mut s, budget)?;
        trips_after += 1;
        for (i, pr) in w.poll_results.iter().enumerate() {
            if let PollRes::Err(e) = pr {
                return Err((format!("requests-err:{}", e), format!("requests() call #{} returned Err({})", i + 1, e)));
            }
        }
        // release: everybody but the witness leaves, everything is answered
        for c in 1..next {
            w.close_client(c);
        }
        w.settle(300, false);
        while let Some(kk) = w.outstanding.iter().position(|o| o.c != wit) {
            w.respond(kk, 200, 5);
        }
        w.answer_untagged();
        w.settle(300, false);
        witness_roundtrip(&mut w, wit, &mut s, budget)?;
        let held = w.held();
        if held != 1 {
            return Err(("not-released".into(), format!("everybody but the witness has left and every yielded request is answered, yet the server holds {} connection descriptors besides listener and epoll", held)));
        }
        Ok(())
    })();
    obs.nontrivial = trips_after > 0;
    obs.case_hash = Some(fnv64(input.bytes()));
    if obs.want_render {
        obs.render = w.render();
    }
    match r {
        Ok(()) => Ok(()),
        Err((sig, msg)) => Err(wfail("C09", &sig, msg, &w)),
    }
}

fn c09_plan(tier: Tier) -> Vec<Job> {
    let q = tier == Tier::Quick;
    vec![
        Job { sub: "hist", kind: JobKind::Pbt { cases: if q { 40_000 } else { 800_000 }, max_len: 500 }, smallbuf: false },
        Job { sub: "cap", kind: JobKind::Pbt { cases: if q { 6_000 } else { 120_000 }, max_len: 200 }, smallbuf: false },
        Job { sub: "macro", kind: JobKind::Enum { f: c09_macro_enum, bound: if q { "all applicable adversary macro-operation sequences of length <= 6 over {connect, 1 request, 2 pipelined, garbage, partial, shutdown(RD), shutdown(WR), close, answer (small), answer (300 KB), answer + flush}, a witness round trip after every operation" } else { "same, length <= 8" } }, smallbuf: false },
    ]
}

pub fn c09() -> PropDef {
    PropDef {
        id: "C09",
        subs: vec![("hist", c09_hist), ("macro", c09_macro), ("cap", c09_cap)],
        plan: c09_plan,
        rule: "case = history with one witness client doing request/response round trips and 1..3 adversaries executing random sequences of {valid/invalid/partial/oversized sends, shutdown(RD), shutdown(WR), close, never read}, the application answering adversary requests arbitrarily late or never; skeletons for write-failure-with-requests-in-flight, hang-up-with-queued-output, garbage-then-close; oracle = requests() never returns Err, every witness round trip completes within 64 requests() calls, and once everything yielded is answered and every adversary is dead the server holds exactly one connection descriptor (/proc/self/fd); non-trivial = an adversary died or became unwritable with >=1 request in flight and the witness completed a round trip afterwards; sub 'cap': the witness plus 7..9 idle bystanders (server at or next to capacity), one client leaves with requests in flight, 1..3 newcomers connect, the answers come late: nobody receives anything foreign, respond() is accepted, the witness completes round trips, and after everybody else has left exactly one connection descriptor is held",
        assumptions: vec!["bounded liveness: 64 requests() calls per witness round trip", "a connection kept only for late responses may keep the epoll descriptor readable (not forbidden for misbehaving clients)"],
        single_threaded_world: true,
    }
}

// =======================================================================================
// C10

fn c10_hist(input: &Input, obs: &mut Obs) -> Result<(), Fail> {
    let mut s = Src::new(input.bytes());
    world_variant(&mut s);
    let nslots = 64;
    let mut w = World::new(nslots, false, obs.want_render).map_err(|e| Fail::new("harness-world", e))?;
    let mut next_slot = 0usize;
    // model at quiescent points
    let mut accepted: Vec<usize> = Vec::new(); // slots the server accepted and has not released (by model)
    // descriptors sent along with a request that has not been yielded yet, per client; and per request
    let mut fd_pending: std::collections::HashMap<usize, usize> = std::collections::HashMap::new();
    let mut fd_req: std::collections::HashMap<(usize, usize), usize> = std::collections::HashMap::new();
    // bytes the client had sent when its descriptors went out: whatever it sends behind an incomplete
    // request may get that request rejected, and descriptors pending at a parse error are dropped
    let mut fd_mark: std::collections::HashMap<usize, usize> = std::collections::HashMap::new();
    let mut refusals = 0;
    let mut accepts_after_refusal = 0;
    let mut reached_cap = false;
    let mut cycles = 0;
    let alive = |w: &World, c: usize| w.clients[c].state == CState::Connected && !w.clients[c].shut_rd && !w.clients[c].shut_wr;
    // shut down for reading only: the server learns about it when (and if) a write fails
    let maybe = |w: &World, c: usize| w.clients[c].state == CState::Connected && w.clients[c].shut_rd && !w.clients[c].shut_wr;
    let r = (|| -> Result<(), (String, String)> {
        let nops = s.range(10, 90);
        let mut target_high = true;
        for _ in 0..nops {
            // model: held = alive accepted + dead accepted with unanswered requests
            let held_model = |w: &World, accepted: &Vec<usize>| accepted.iter().filter(|c| alive(w, **c) || maybe(w, **c) || w.outstanding.iter().any(|o| o.c == **c)).count();
            let hm = held_model(&w, &accepted);
            // bias: fill towards 9..12, then drain, repeatedly
            if hm >= 10 {
                reached_cap = true;
            }
            if hm >= 10 && s.chance(40) {
                target_high = false;
            }
            if hm <= 3 && !target_high {
                target_high = true;
                cycles += 1;
            }
            let wts: [u32; 15] = if target_high { [14, 2, 1, 4, 2, 3, 2, 3, 1, 2, 1, 2, 1, 1, 1] } else { [3, 10, 3, 3, 1, 4, 2, 2, 1, 2, 2, 2, 2, 2, 2] };
            let op = s.weighted(&wts);
            // with a read-shut client around, the number of held connections is not known exactly
            let mut burst_close = accepted.iter().any(|c| maybe(&w, *c))
                || (!w.untagged.is_empty() && accepted.iter().any(|c| !alive(&w, *c) && w.clients[*c].dirty));
            let mut new_conns: Vec<usize> = Vec::new();
            match op {
                0 => {
                    if next_slot < nslots {
                        w.connect(next_slot);
                        // now and then the newcomer has already sent a request (either version) when
                        // the server gets to its connection
                        if s.chance(60) {
                            let spec = ReqSpec { method: 0, version: s.below(2) as u8, body: 0, expect: false, extra_headers: s.below(2), body_kind: 0 };
                            w.send_request(next_slot, &spec, &[]);
                            obs.label("newcomer_sent_a_request_before_being_accepted_or_refused");
                        }
                        new_conns.push(next_slot);
                        next_slot += 1;
                    }
                }
                14 => {
                    // one message: well-formed requests that fill most of the server's first read,
                    // then a request line that is not acceptable and straddles the end of that read;
                    // the client may leave right away
                    let live: Vec<usize> = accepted.iter().copied().filter(|c| alive(&w, *c) && !w.clients[*c].dirty && w.clients[*c].staged.is_empty() && w.clients[*c].unsent.is_empty()).collect();
                    if !live.is_empty() {
                        let c = live[s.below(live.len())];
                        let quiet = w.clients[c].composed.len() == w.clients[c].yielded.len();
                        let spec = ReqSpec { method: 0, version: 1, body: 0, expect: false, extra_headers: 0, body_kind: 0 };
                        let mut burst = Vec::new();
                        let fill_to = s.range(900, 1015);
                        while burst.len() < fill_to {
                            burst.extend_from_slice(&w.compose(c, &spec));
                        }
                        burst.extend_from_slice(b"BROKEN /");
                        burst.extend(std::iter::repeat(b'x').take(s.range(40, 200)));
                        burst.extend_from_slice(b" HTTP/1.1\r\n\r\n");
                        w.clients[c].dirty = true;
                        w.send_raw(c, &burst);
                        if quiet {
                            obs.label("valid_requests_then_a_bad_request_line_across_the_read_boundary");
                        }
                        if s.chance(128) {
                            w.close_client(c);
                        }
                    }
                }
                1 | 2 => {
                    let live: Vec<usize> = accepted.iter().copied().filter(|c| alive(&w, *c)).collect();
                    if !live.is_empty() {
                        let c = live[s.below(live.len())];
                        if w.outstanding.iter().any(|o| o.c == c) {
                            obs.label("close_with_requests_in_flight");
                        }
                        if w.clients[c].expected.iter().map(|e| e.bytes.len()).sum::<usize>() > w.clients[c].recv.len() + 100_000 {
                            obs.label("close_with_unsent_output");
                        }
                        if op == 1 { w.close_client(c) } else { w.shutdown_client(c, libc::SHUT_RDWR) }
                    }
                }
                3 => {
                    let live: Vec<usize> = accepted.iter().copied().filter(|c| alive(&w, *c)).collect();
                    if !live.is_empty() {
                        let c = live[s.below(live.len())];
                        let spec = spec_from(&mut s, false, false);
                        w.send_request(c, &spec, &[]);
                    }
                }
                4 => {
                    let live: Vec<usize> = accepted.iter().copied().filter(|c| alive(&w, *c) && w.clients[*c].staged.is_empty()).collect();
                    if !live.is_empty() {
                        let c = live[s.below(live.len())];
                        let spec = spec_from(&mut s, false, false);
                        let cut = 1 + s.below(20);
                        w.send_request(c, &spec, &[cut]);
                        // the rest stays staged: unread partial input at close time
                        let rest: Vec<Vec<u8>> = w.clients[c].staged.drain(..).collect();
                        let _ = rest;
                        w.clients[c].dirty = true;
                        obs.label("partial_request_pending");
                    }
                }
                5 => {
                    if !w.outstanding.is_empty() {
                        let size = if s.chance(30) { 300_000 } else { s.range(0, 500) };
                        // any status the application likes, interim and body-less ones included
                        let code = [200u16, 200, 404, 100, 204, 503, 400][s.weighted(&[8, 8, 2, 3, 3, 1, 1])];
                        let c0 = w.outstanding[0].c;
                        let same: Vec<usize> = w.outstanding.iter().enumerate().filter(|(_, o)| o.c == c0).map(|(i, _)| i).collect();
                        if same.len() >= 2 && s.chance(128) {
                            // all answers for one client handed over in one batch
                            w.respond_batch_in_order(&same, code, size.min(500));
                            obs.label("batch_of_answers_for_one_client");
                        } else {
                            w.respond(0, code, size);
                        }
                    }
                }
                6 => {
                    let live: Vec<usize> = accepted.iter().copied().filter(|c| alive(&w, *c)).collect();
                    if !live.is_empty() {
                        let c = live[s.below(live.len())];
                        w.read_client(c, usize::MAX);
                    }
                }
                9 => {
                    // the application flushes instead of polling. Only when every open client's unread
                    // output is small (flush is allowed to give up on a connection whose buffer is full)
                    let small = accepted.iter().all(|c| !alive(&w, *c) || w.clients[*c].expected.iter().map(|e| e.bytes.len()).sum::<usize>() < w.clients[*c].recv.len() + 30_000);
                    if small {
                        w.flush();
                        obs.label("flush_outgoing_writes");
                    }
                }
                13 => {
                    // the head of an Expect request is read by one poll (the interim response is
                    // queued, not yet written) and the client hangs up before the next poll
                    let live: Vec<usize> = accepted.iter().copied().filter(|c| alive(&w, *c) && w.clients[*c].staged.is_empty() && w.clients[*c].unsent.is_empty() && !w.clients[*c].dirty && !w.clients[*c].lazy && !w.outstanding.iter().any(|o| o.c == *c)).collect();
                    if !live.is_empty() {
                        let c = live[s.below(live.len())];
                        let n = s.range(1, 40);
                        let spec = ReqSpec { method: 1 + s.below(2) as u8, version: s.below(2) as u8, body: n, expect: true, extra_headers: s.below(2), body_kind: 0 };
                        let bytes = w.compose(c, &spec);
                        let head = bytes.len() - n;
                        w.clients[c].dirty = true;
                        w.send_raw(c, &bytes[..head]);
                        let polls = s.range(1, 2);
                        for _ in 0..polls {
                            if w.epoll_ready() {
                                w.poll();
                            }
                        }
                        if s.chance(128) { w.close_client(c) } else { w.shutdown_client(c, libc::SHUT_RDWR) }
                        obs.label("hangup_between_expect_head_and_interim_response");
                    }
                }
                12 => {
                    // a request sent in 2..3 messages that each carry descriptors (0..253 per message,
                    // more than 253 in all now and then); the last message may be withheld
                    let live: Vec<usize> = accepted.iter().copied().filter(|c| alive(&w, *c) && w.clients[*c].staged.is_empty() && w.clients[*c].unsent.is_empty() && !w.clients[*c].dirty && !w.clients[*c].lazy).collect();
                    if !live.is_empty() {
                        'fdop: {
                        let c = live[s.below(live.len())];
                        let mut spec = spec_from(&mut s, false, false);
                        spec.body = spec.body.min(40);
                        let bytes = w.compose(c, &spec);
                        let j = w.clients[c].composed.len() - 1;
                        let npieces = s.range(2, 3).min(bytes.len());
                        let mut cuts: Vec<usize> = (1..npieces).map(|i| i * bytes.len() / npieces).collect();
                        cuts.push(bytes.len());
                        // variant: the request line is not acceptable (method POST); every descriptor rides
                        // on the first message, which holds that whole line. The request is rejected and
                        // nothing of it may stay behind, its descriptors included
                        if s.chance(50) {
                            let mut bad = b"POST".to_vec();
                            let sp = bytes.iter().position(|b| *b == b' ').unwrap_or(0);
                            bad.extend_from_slice(&bytes[sp..]);
                            let line_end = bad.windows(2).position(|x| x == b"\r\n").map(|i| i + 2).unwrap_or(bad.len());
                            let first = if s.chance(128) { line_end } else { bad.len() };
                            let nf = [1usize, 5, 100, 253][s.weighted(&[6, 4, 1, 1])];
                            w.clients[c].dirty = true;
                            if w.send_with_fds(c, &bad[..first], nf) {
                                if first < bad.len() {
                                    if s.chance(128) {
                                        w.settle(100, true);
                                    }
                                    w.send_raw(c, &bad[first..]);
                                }
                                obs.label("descriptors_with_a_rejected_request_line");
                            }
                            w.settle(200, true);
                            break 'fdop;
                        }
                        let withhold = s.chance(50);
                        let mut from = 0;
                        let mut sent_fds = 0usize;
                        let mut ok = true;
                        for (pi, cut) in cuts.iter().enumerate() {
                            if withhold && pi + 1 == cuts.len() {
                                break;
                            }
                            let nf = [0usize, 1, 5, 100, 200, 253][s.weighted(&[3, 8, 5, 1, 1, 1])];
                            if !w.send_with_fds(c, &bytes[from..*cut], nf) {
                                ok = false;
                                break;
                            }
                            sent_fds += nf;
                            from = *cut;
                            if s.chance(170) {
                                w.settle(100, true);
                            }
                        }
                        if !ok || withhold {
                            // an incomplete request stays behind: the client is no longer a clean one
                            w.clients[c].dirty = true;
                        }
                        *fd_pending.entry(c).or_insert(0) += sent_fds;
                        fd_req.insert((c, j), sent_fds);
                        fd_mark.insert(c, w.clients[c].sent.len());
                        obs.label("request_with_descriptors");
                        if sent_fds > 253 {
                            obs.label("more_than_253_descriptors_for_one_request");
                        }
                        if withhold {
                            obs.label("descriptors_pending_with_incomplete_request");
                        }
                        }
                    }
                }
                11 => {
                    // several requests (some announcing their body with Expect) reach the server in one read
                    let live: Vec<usize> = accepted.iter().copied().filter(|c| alive(&w, *c) && w.clients[*c].staged.is_empty() && !w.clients[*c].dirty).collect();
                    if !live.is_empty() {
                        let c = live[s.below(live.len())];
                        let k = s.range(2, 4);
                        let mut any_expect = false;
                        for _ in 0..k {
                            let mut spec = spec_from(&mut s, true, false);
                            spec.body = spec.body.min(60);
                            any_expect |= spec.expect;
                            w.send_request(c, &spec, &[]);
                        }
                        obs.label("pipelined_requests_in_one_read");
                        if any_expect {
                            obs.label("pipelined_with_expect");
                        }
                    }
                }
                10 => {
                    // a client that does not read is sent more than its socket takes, so that part of
                    // a response is on the wire and the rest pending; then it leaves (after reading
                    // some of it, or none)
                    let live: Vec<usize> = accepted.iter().copied().filter(|c| alive(&w, *c) && w.clients[*c].staged.is_empty() && !w.clients[*c].dirty).collect();
                    if !live.is_empty() {
                        let c = live[s.below(live.len())];
                        w.clients[c].lazy = true;
                        if !w.outstanding.iter().any(|o| o.c == c) {
                            let spec = spec_from(&mut s, false, false);
                            w.send_request(c, &spec, &[]);
                            w.settle(100, true);
                        }
                        let mut big = false;
                        while let Some(k) = w.outstanding.iter().position(|o| o.c == c) {
                            let size = if big { s.range(0, 300) } else { [260_000usize, 300_000, 600_000][s.below(3)] };
                            big = true;
                            w.respond(k, 200, size);
                        }
                        if big {
                            w.settle(400, true);
                            match s.below(3) {
                                0 => {}
                                1 => {
                                    w.read_client(c, 1 + s.below(100_000));
                                    w.settle(400, true);
                                }
                                _ => {
                                    w.read_client(c, 1 + s.below(4096));
                                }
                            }
                            w.close_client(c);
                            obs.label("hangup_with_partly_written_response");
                        }
                    }
                }
                8 => {
                    // a client stops reading (shutdown(RD)): the server finds out through a failing write
                    let live: Vec<usize> = accepted.iter().copied().filter(|c| alive(&w, *c)).collect();
                    if !live.is_empty() {
                        let c = live[s.below(live.len())];
                        if s.chance(200) && !w.outstanding.iter().any(|o| o.c == c) {
                            let spec = spec_from(&mut s, false, false);
                            w.send_request(c, &spec, &[]);
                            w.settle(100, true);
                        }
                        w.shutdown_client(c, libc::SHUT_RD);
                        burst_close = true;
                        obs.label("client_shut_rd");
                    }
                }
                _ => {
                    // burst: several connects and closes between two polls
                    let k = s.range(2, 4);
                    for _ in 0..k {
                        if s.chance(150) && next_slot < nslots {
                            w.connect(next_slot);
                            new_conns.push(next_slot);
                            next_slot += 1;
                            if s.chance(60) {
                                // connect and close inside one batch
                                burst_close = true;
                                w.close_client(next_slot - 1);
                                obs.label("connect_and_close_in_one_batch");
                            }
                        } else {
                            let live: Vec<usize> = accepted.iter().copied().filter(|c| alive(&w, *c)).collect();
                            if !live.is_empty() {
                                let c = live[s.below(live.len())];
                                w.close_client(c);
                                burst_close = true;
                            }
                        }
                    }
                }
            }
            let hm_before = hm;
            let (_, over) = w.settle(400, true);
            if let Some(PollRes::Err(e)) = w.poll_results.iter().find(|r| matches!(r, PollRes::Err(_))) {
                return Err((format!("requests-err:{}", e), format!("requests() returned Err({})", e)));
            }
            let _ = over; // a dead connection kept for late answers keeps the epoll descriptor readable
            // classify the new connections
            let mut free = 10usize.saturating_sub(hm_before);
            for c in new_conns {
                let cl = &w.clients[c];
                let closed_by_harness = cl.state == CState::Closed;
                if closed_by_harness {
                    // cannot observe what it would have received; it may or may not have taken a slot
                    if free > 0 {
                        free -= 1;
                    }
                    continue;
                }
                let a = audit_client(&w, c)?;
                let refused = a.n503 > 0;
                if refused {
                    refusals += 1;
                    if !(cl.eof || cl.reset) {
                        return Err(("refused-not-disconnected".into(), format!("client {} received the 503 message but its connection stays open", c)));
                    }
                    if a.app_received + a.n100 + a.n400 + a.n500 > 0 || a.n503 != 1 {
                        return Err(("refused-extra".into(), format!("refused client {} received more than the single 503 message: {:?}", c, a)));
                    }
                    if free > 0 && !burst_close {
                        return Err(("refused-below-capacity".into(), format!("client {} was refused while only {} connections were held", c, hm_before)));
                    }
                    if accepted.iter().filter(|x| alive(&w, **x)).count() + 0 > 10 {
                        return Err(("over-capacity".into(), "more than 10 connections served".into()));
                    }
                } else {
                    if cl.eof || cl.reset {
                        return Err(("dropped-without-503".into(), format!("client {} was disconnected without the 503 message (received \"{}\")", c, esc(&cl.recv))));
                    }
                    if free == 0 && !burst_close {
                        return Err(("accepted-above-capacity".into(), format!("client {} was accepted although {} connections were already held", c, hm_before)));
                    }
                    if free > 0 {
                        free -= 1;
                    }
                    accepted.push(c);
                    if refusals > 0 {
                        accepts_after_refusal += 1;
                    }
                }
            }
            // release model: dead and fully answered connections are gone
            // (an unanswered request whose tag was destroyed by the client's own garbage cannot be
            // attributed, so every dead garbage-sending client may be the one kept for it)
            accepted.retain(|c| {
                alive(&w, *c)
                    || maybe(&w, *c)
                    || w.outstanding.iter().any(|o| o.c == *c)
                    || (w.clients[*c].dirty && !w.untagged.is_empty())
            });
            let serving = accepted.iter().filter(|c| alive(&w, **c)).count();
            if serving > 10 {
                return Err(("over-capacity".into(), format!("{} clients are connected and unrefused at once", serving)));
            }
            // descriptors that travelled with requests: those of a yielded request belong to it (and
            // to the application until it has answered), the others wait at the connection
            for ((c, j), n) in fd_req.iter() {
                if w.clients[*c].yielded.contains(j) {
                    if let Some(p) = fd_pending.get_mut(c) {
                        *p = p.saturating_sub(*n);
                    }
                }
            }
            fd_req.retain(|(c, j), _| !w.clients[*c].yielded.contains(j));
            let with_app: isize = w.outstanding.iter().map(|o| o.sreq.request.files.len() as isize).sum();
            let want_with_app: isize = 0;
            let _ = want_with_app;
            let waiting_lo: isize = fd_pending.iter().filter(|(c, _)| alive(&w, **c) && fd_mark.get(*c) == Some(&w.clients[**c].sent.len())).map(|(_, n)| *n as isize).sum();
            let waiting_hi: isize = fd_pending.iter().filter(|(c, _)| accepted.contains(*c)).map(|(_, n)| *n as isize).sum();
            // descriptor accounting at the quiescent point
            let held = w.held();
            let upper = accepted.len() as isize + with_app + waiting_hi;
            let lower = accepted.iter().filter(|c| alive(&w, **c)).count() as isize + with_app + waiting_lo;
            if held < lower || held > upper {
                return Err((
                    "fd-accounting".into(),
                    format!("server holds {} connection descriptors; by the history between {} (open connections) and {} (open + dead with unanswered requests)", held, lower, upper),
                ));
            }
            // existing connections are undisturbed
            for c in accepted.iter().copied().filter(|c| alive(&w, *c)) {
                let cl = &w.clients[c];
                if cl.eof || cl.reset {
                    return Err(("disturbed".into(), format!("open client {} was disconnected", c)));
                }
                audit_client(&w, c)?;
                if !cl.dirty {
                    let want: Vec<usize> = (0..cl.composed.len()).collect();
                    if cl.yielded != want && cl.staged.is_empty() && cl.unsent.is_empty() {
                        return Err(("disturbed".into(), format!("open client {} sent requests {:?}, yielded {:?}", c, want, cl.yielded)));
                    }
                }
            }
        }
        // drain completely
        for c in 0..next_slot {
            w.close_client(c);
        }
        while !w.outstanding.is_empty() {
            w.respond(0, 200, 5);
        }
        w.answer_untagged();
        let (_, over) = w.settle(600, true);
        if let Some(PollRes::Err(e)) = w.poll_results.iter().find(|r| matches!(r, PollRes::Err(_))) {
            return Err((format!("requests-err:{}", e), format!("requests() returned Err({})", e)));
        }
        let _ = over;
        let held = w.held();
        if held != 0 {
            return Err(("fd-leak".into(), format!("all clients closed and all requests answered, yet the server still holds {} connection descriptors", held)));
        }
        if let Some(e) = w.api_errors.first() {
            return Err(("respond-err".into(), e.clone()));
        }
        Ok(())
    })();
    obs.nontrivial = reached_cap && refusals > 0 && accepts_after_refusal > 0;
    if refusals > 0 {
        obs.label("refusal");
    }
    if cycles > 0 {
        obs.label("fill_drain_cycle");
    }
    if reached_cap {
        obs.label("reached_10");
    }
    obs.case_hash = Some(fnv64(input.bytes()));
    if obs.want_render {
        obs.render = w.render();
    }
    match r {
        Ok(()) => Ok(()),
        Err((sig, msg)) => Err(wfail("C10", &sig, msg, &w)),
    }
}

/// micro-operation histories around capacity: single polls instead of settles, so that responses,
/// closes and connects interleave between two requests() calls. Only order-insensitive oracles.
fn c10_micro(input: &Input, obs: &mut Obs) -> Result<(), Fail> {
    let mut s = Src::new(input.bytes());
    world_variant(&mut s);
    let nslots = 48;
    let mut w = World::new(nslots, false, obs.want_render).map_err(|e| Fail::new("harness-world", e))?;
    let mut next_slot = 0usize;
    let mut zombies = 0;
    let mut refusals = 0;
    let spec = ReqSpec { method: 0, version: 1, body: 0, expect: false, extra_headers: 0, body_kind: 0 };
    let unrefused_open = |w: &World, c: usize| w.clients[c].state == CState::Connected && !w.clients[c].eof && !w.clients[c].reset;
    let r = (|| -> Result<(), (String, String)> {
        // fill up
        let fill = s.range(8, 10);
        for _ in 0..fill {
            w.connect(next_slot);
            next_slot += 1;
        }
        w.settle(200, true);
        // some of them get a request in flight
        for c in 0..fill {
            if s.chance(100) {
                w.send_request(c, &spec, &[]);
            }
        }
        w.settle(200, true);
        let nops = s.range(10, 70);
        for _ in 0..nops {
            let live: Vec<usize> = (0..next_slot).filter(|c| unrefused_open(&w, *c)).collect();
            match s.weighted(&[10, 6, 5, 8, 14, 3, 2, 2]) {
                7 => {
                    // responses here are tiny, so flushing can never hit a full socket buffer
                    w.flush();
                }
                0 => {
                    if next_slot < nslots {
                        w.connect(next_slot);
                        next_slot += 1;
                    }
                }
                1 => {
                    if !live.is_empty() {
                        let c = live[s.below(live.len())];
                        if w.outstanding.iter().any(|o| o.c == c) {
                            zombies += 1;
                        }
                        w.close_client(c);
                    }
                }
                2 => {
                    if !live.is_empty() {
                        let c = live[s.below(live.len())];
                        w.send_request(c, &spec, &[]);
                    }
                }
                3 => {
                    if !w.outstanding.is_empty() {
                        // prefer requests of clients that are gone
                        let gone: Vec<usize> = w.outstanding.iter().enumerate().filter(|(_, o)| w.clients[o.c].state != CState::Connected).map(|(i, _)| i).collect();
                        let k = if !gone.is_empty() && s.chance(170) { gone[s.below(gone.len())] } else { s.below(w.outstanding.len()) };
                        w.respond(k, 200, s.range(0, 200));
                    }
                }
                4 => {
                    if let PollRes::Err(e) = w.poll() {
                        return Err((format!("requests-err:{}", e), format!("requests() returned Err({})", e)));
                    }
                }
                5 => {
                    if !live.is_empty() {
                        let c = live[s.below(live.len())];
                        w.read_client(c, usize::MAX);
                    }
                }
                _ => {
                    w.settle(200, true);
                }
            }
            if let Some(PollRes::Err(e)) = w.poll_results.iter().find(|r| matches!(r, PollRes::Err(_))) {
                return Err((format!("requests-err:{}", e), format!("requests() returned Err({})", e)));
            }
        }
        w.settle(300, true);
        if let Some(PollRes::Err(e)) = w.poll_results.iter().find(|r| matches!(r, PollRes::Err(_))) {
            return Err((format!("requests-err:{}", e), format!("requests() returned Err({})", e)));
        }
        // every client that is still there was either refused properly or is being served
        let mut served = 0;
        for c in 0..next_slot {
            if w.clients[c].state != CState::Connected {
                continue;
            }
            let a = audit_client(&w, c)?;
            let cl = &w.clients[c];
            if a.n503 > 0 {
                refusals += 1;
                if !(cl.eof || cl.reset) {
                    return Err(("refused-not-disconnected".into(), format!("client {} received the 503 message but its connection stays open", c)));
                }
                if a.app_received + a.n100 + a.n400 + a.n500 > 0 || a.n503 != 1 {
                    return Err(("refused-extra".into(), format!("refused client {} received more than the single 503 message: {:?}", c, a)));
                }
            } else if cl.eof || cl.reset {
                return Err(("dropped-without-503".into(), format!("client {} never closed its connection and was disconnected without the 503 message (received \"{}\")", c, esc(&cl.recv))));
            } else {
                served += 1;
                // an open, accepted client gets its complete requests yielded
                let want: Vec<usize> = (0..cl.composed.len()).collect();
                if cl.yielded != want {
                    return Err(("disturbed".into(), format!("open client {} sent requests {:?}, yielded {:?}", c, want, cl.yielded)));
                }
            }
        }
        if served > 10 {
            return Err(("over-capacity".into(), format!("{} clients are connected and unrefused at once", served)));
        }
        // drain
        for c in 0..next_slot {
            w.close_client(c);
        }
        while !w.outstanding.is_empty() {
            w.respond(0, 200, 5);
        }
        w.answer_untagged();
        w.settle(600, true);
        if let Some(PollRes::Err(e)) = w.poll_results.iter().find(|r| matches!(r, PollRes::Err(_))) {
            return Err((format!("requests-err:{}", e), format!("requests() returned Err({})", e)));
        }
        let held = w.held();
        if held != 0 {
            return Err(("fd-leak".into(), format!("all clients closed and all requests answered, yet the server still holds {} connection descriptors", held)));
        }
        if let Some(e) = w.api_errors.first() {
            return Err(("respond-err".into(), e.clone()));
        }
        Ok(())
    })();
    obs.nontrivial = zombies > 0 && refusals > 0;
    if zombies > 0 {
        obs.label("close_with_requests_in_flight");
    }
    if refusals > 0 {
        obs.label("refusal");
    }
    obs.case_hash = Some(fnv64(input.bytes()));
    if obs.want_render {
        obs.render = w.render();
    }
    match r {
        Ok(()) => Ok(()),
        Err((sig, msg)) => Err(wfail("C10", &sig, msg, &w)),
    }
}

/// Very many unanswered requests on one connection (around 2^8 and 2^16), one more request from
/// it arriving in the same batch as the completion of another client's request; then both
/// clients leave, everything is answered, and the server holds nothing. params = [n, order]
fn c10_flood(input: &Input, obs: &mut Obs) -> Result<(), Fail> {
    flood("C10", input, obs)
}

/// (the same history consists of well-behaved clients only until they leave)
fn c08_flood(input: &Input, obs: &mut Obs) -> Result<(), Fail> {
    flood("C08", input, obs)
}

fn flood(prop: &str, input: &Input, obs: &mut Obs) -> Result<(), Fail> {
    SERVER_FROM_FD.with(|c| c.set(false));
    KILL_AFTER_START.with(|c| c.set(false));
    let p = input.params();
    let n = p[0] as usize;
    let b_first = p[1] == 0;
    let mut w = World::new(4, false, false).map_err(|e| Fail::new("harness-world", e))?;
    let spec = ReqSpec { method: 0, version: 1, body: 0, expect: false, extra_headers: 0, body_kind: 0 };
    let r = (|| -> Result<(), (String, String)> {
        // connection order decides the order of the two events in the last batch
        let (a, b) = if b_first { (1usize, 0usize) } else { (0usize, 1usize) };
        w.connect(0);
        w.settle(50, true);
        w.connect(1);
        w.settle(50, true);
        // B: the first half of a request
        let bb = w.compose(b, &spec);
        w.send_raw(b, &bb[..10]);
        w.settle(50, true);
        // A: n complete requests, never answered for now
        let mut buf = Vec::new();
        for _ in 0..n {
            buf.extend_from_slice(&w.compose(a, &spec));
            if buf.len() > 60_000 {
                w.send_raw(a, &buf);
                buf.clear();
                w.settle(4000, true);
            }
        }
        if !buf.is_empty() {
            w.send_raw(a, &buf);
        }
        w.settle(100_000, true);
        if let Some(PollRes::Err(e)) = w.poll_results.iter().find(|r| matches!(r, PollRes::Err(_))) {
            return Err((format!("requests-err:{}", e), format!("requests() returned Err({}) with {} unanswered requests on one connection", e, w.outstanding.len())));
        }
        if w.clients[a].yielded.len() != n {
            return Err(("disturbed".into(), format!("{} complete requests sent on one connection, {} yielded", n, w.clients[a].yielded.len())));
        }
        // one more from A and the rest of B's request, before the next poll
        let one_more = w.compose(a, &spec);
        w.send_raw(a, &one_more);
        w.send_raw(b, &bb[10..]);
        w.settle(200, true);
        if let Some(PollRes::Err(e)) = w.poll_results.iter().find(|r| matches!(r, PollRes::Err(_))) {
            return Err((format!("requests-err:{}", e), format!("requests() returned Err({}) with {} unanswered requests on one connection", e, n)));
        }
        if w.clients[a].yielded.len() != n + 1 || w.clients[b].yielded.len() != 1 {
            return Err(("disturbed".into(), format!("after {} unanswered requests: client A yielded {} of {}, client B {} of 1", n, w.clients[a].yielded.len(), n + 1, w.clients[b].yielded.len())));
        }
        // both leave; everything is answered late
        w.close_client(a);
        w.close_client(b);
        w.settle(200, true);
        while !w.outstanding.is_empty() {
            let k = w.outstanding.len() - 1;
            if !w.respond(k, 200, 0) {
                return Err(("respond-err".into(), w.api_errors.last().cloned().unwrap_or_default()));
            }
        }
        w.settle(2000, true);
        if let Some(PollRes::Err(e)) = w.poll_results.iter().find(|r| matches!(r, PollRes::Err(_))) {
            return Err((format!("requests-err:{}", e), format!("requests() returned Err({})", e)));
        }
        let held = w.held();
        if held != 0 {
            return Err(("fd-leak".into(), format!("all clients closed and all {} requests answered, yet the server still holds {} connection descriptors", n + 2, held)));
        }
        Ok(())
    })();
    obs.nontrivial = true;
    if obs.want_render {
        obs.render = format!("{} unanswered requests on one connection, other client's connection accepted {}", n, if b_first { "first" } else { "second" });
    }
    match r {
        Ok(()) => Ok(()),
        Err((sig, msg)) => Err(Fail::new(&format!("{}:{}", prop, sig), msg)),
    }
}

fn c10_flood_enum(tier: Tier, shard: u64, nshards: u64, f: &mut dyn FnMut(&[u64]) -> bool) {
    let mut ns: Vec<u64> = vec![254, 255, 256, 257, 65534, 65535, 65536];
    if tier != Tier::Quick {
        ns.extend([127, 128, 129, 32767, 32768, 65537, 131072]);
    }
    let mut c = 0u64;
    for n in ns {
        for order in 0..2u64 {
            c += 1;
            if c % nshards == shard && !f(&[n, order]) {
                return;
            }
        }
    }
}

fn c10_plan(tier: Tier) -> Vec<Job> {
    let q = tier == Tier::Quick;
    vec![
        Job { sub: "hist", kind: JobKind::Pbt { cases: if q { 10_000 } else { 200_000 }, max_len: 600 }, smallbuf: false },
        Job { sub: "micro", kind: JobKind::Pbt { cases: if q { 20_000 } else { 400_000 }, max_len: 400 }, smallbuf: false },
        Job { sub: "flood", kind: JobKind::Enum { f: c10_flood_enum, bound: "n unanswered requests on one connection for n in {254..257, 65534..65536} (thorough: also around 2^7, 2^15, 2^16+1, 2^17) x both accept orders of the two clients" }, smallbuf: false },
    ]
}

pub fn c10() -> PropDef {
    PropDef {
        id: "C10",
        subs: vec![("hist", c10_hist), ("micro", c10_micro), ("flood", c10_flood)],
        plan: c10_plan,
        rule: "case = history of 10..90 macro-operations over up to 64 client slots, biased to hover at 9..12 simultaneous connections in repeated fill/drain cycles: connect, close, shutdown(RDWR), send request, send partial request, respond (small or 300 KB), read, and bursts of several connects/closes between two polls; each macro-operation is followed by a settle; oracle = a client connecting while 10 are held receives exactly the fixed 503 message then EOF, one connecting while fewer are held is accepted (either outcome when a slot is freed in the same batch), never more than 10 served, existing connections undisturbed, descriptors held (via /proc/self/fd) between #open and #open+#dead-with-unanswered-requests at every quiescent point and exactly listener+epoll at the end; non-trivial = reached 10 held connections with >=1 refusal and >=1 later successful connect; further operations: a client that does not read is sent 300 KB..1 MB so that a response is partly written when it hangs up; 2..4 requests (some with Expect) reaching the server in one read",
        assumptions: vec!["capacity decisions are judged at quiescent points (after a settle)"],
        single_threaded_world: true,
    }
}

// =======================================================================================
// C07

#[derive(Clone, Copy, Debug, PartialEq, Eq)]
enum MOp {
    Connect(u8),
    SendReq(u8),
    Close(u8),
    ShutWr(u8),
    Read(u8),
    RespondOldest,
    RespondNewest,
}

fn c07_audit_all(w: &World) -> Result<(), (String, String)> {
    for c in 0..w.clients.len() {
        if w.clients[c].state != CState::Unconnected {
            audit_client(w, c)?;
        }
    }
    if let Some(f) = w.yield_faults.first() {
        return Err(("yield".into(), f.clone()));
    }
    // (a client that sent garbage or partial requests may legitimately get request-like bytes of
    // a body parsed as a request of its own after an error; only clean histories are judged here)
    if let Some(u) = w.yielded_untagged.first() {
        if !w.clients.iter().any(|c| c.dirty) {
            return Err(("yield".into(), format!("a request nobody sent was yielded: {:?}", u)));
        }
    }
    if let Some(e) = w.api_errors.first() {
        return Err(("respond-rejected".into(), format!("supplying a response was refused: {}", e)));
    }
    if let Some(PollRes::Err(e)) = w.poll_results.iter().find(|r| matches!(r, PollRes::Err(e) if e.starts_with("PANIC"))) {
        return Err(("server-panic".into(), format!("requests() panicked: {}", e)));
    }
    Ok(())
}

/// macro-operation sequences for two roles; each role uses a fresh slot per connect
fn c07_macro_run(ops: &[MOp], obs: &mut Obs) -> Result<(), Fail> {
    // construction variant fixed for this sub (replays must not depend on earlier cases)
    SERVER_FROM_FD.with(|c| c.set(false));
    KILL_AFTER_START.with(|c| c.set(false));
    let mut w = World::new(8, false, obs.want_render).map_err(|e| Fail::new("harness-world", e))?;
    let mut slot_of: [Option<usize>; 2] = [None, None];
    let mut next_slot = 0;
    let mut orphaned = false; // a client went away with requests in flight
    let mut connect_after_orphan = false;
    let mut late_respond = false;
    let r = (|| -> Result<(), (String, String)> {
        for op in ops {
            match *op {
                MOp::Connect(r) => {
                    if next_slot < 8 {
                        slot_of[r as usize] = Some(next_slot);
                        w.connect(next_slot);
                        next_slot += 1;
                        if orphaned {
                            connect_after_orphan = true;
                        }
                    }
                }
                MOp::SendReq(r) => {
                    if let Some(c) = slot_of[r as usize] {
                        let spec = ReqSpec { method: 0, version: 1, body: 0, expect: false, extra_headers: 0, body_kind: 0 };
                        w.send_request(c, &spec, &[]);
                    }
                }
                MOp::Close(r) => {
                    if let Some(c) = slot_of[r as usize] {
                        if w.outstanding.iter().any(|o| o.c == c) {
                            orphaned = true;
                        }
                        w.close_client(c);
                    }
                }
                MOp::ShutWr(r) => {
                    if let Some(c) = slot_of[r as usize] {
                        if w.outstanding.iter().any(|o| o.c == c) {
                            orphaned = true;
                        }
                        w.shutdown_client(c, libc::SHUT_WR);
                    }
                }
                MOp::Read(r) => {
                    if let Some(c) = slot_of[r as usize] {
                        w.read_client(c, usize::MAX);
                    }
                }
                MOp::RespondOldest | MOp::RespondNewest => {
                    if !w.outstanding.is_empty() {
                        let k = if *op == MOp::RespondOldest { 0 } else { w.outstanding.len() - 1 };
                        let c = w.outstanding[k].c;
                        let gone = w.clients[c].state != CState::Connected || w.clients[c].shut_wr;
                        if gone && connect_after_orphan {
                            late_respond = true;
                        }
                        w.respond(k, 200, 30);
                    }
                }
            }
            w.settle(200, false);
            c07_audit_all(&w)?;
        }
        // a final answer to everything, then see what everybody received
        while !w.outstanding.is_empty() {
            w.respond(0, 200, 30);
        }
        w.settle(200, false);
        c07_audit_all(&w)?;
        Ok(())
    })();
    obs.nontrivial = orphaned && connect_after_orphan && late_respond;
    if orphaned {
        obs.label("closed_with_requests_in_flight");
    }
    if late_respond {
        obs.label("late_respond_after_reconnect");
    }
    if obs.want_render {
        obs.render = format!("{:?}\n{}", ops, w.render());
    }
    match r {
        Ok(()) => Ok(()),
        Err((sig, msg)) => Err(wfail("C07", &sig, msg, &w)),
    }
}

const MOPS: [MOp; 12] = [
    MOp::Connect(0),
    MOp::Connect(1),
    MOp::SendReq(0),
    MOp::SendReq(1),
    MOp::Close(0),
    MOp::Close(1),
    MOp::ShutWr(0),
    MOp::ShutWr(1),
    MOp::Read(0),
    MOp::Read(1),
    MOp::RespondOldest,
    MOp::RespondNewest,
];

fn c07_macro(input: &Input, obs: &mut Obs) -> Result<(), Fail> {
    let ops: Vec<MOp> = input.params().iter().map(|i| MOPS[*i as usize]).collect();
    c07_macro_run(&ops, obs)
}

/// DFS over applicable operations (a cheap abstract state prunes no-ops)
fn c07_macro_enum(tier: Tier, shard: u64, nshards: u64, f: &mut dyn FnMut(&[u64]) -> bool) {
    let depth = if tier == Tier::Quick { 6 } else { 7 };
    // abstract state: per role 0 none / 1 connected / 2 half-closed / 3 closed ; sent[r]; outstanding estimate; connects
    #[derive(Clone, Copy)]
    struct St {
        role: [u8; 2],
        pending: [u8; 2], // requests sent and not answered (any slot of the role)
        connects: u8,
        any_req: bool,
    }
    fn rec(depth: usize, st: St, seq: &mut Vec<u64>, counter: &mut u64, shard: u64, nshards: u64, f: &mut dyn FnMut(&[u64]) -> bool, stop: &mut bool) {
        if *stop {
            return;
        }
        if seq.len() == depth {
            // only sequences that contain a request are of interest
            if st.any_req {
                *counter += 1;
                if *counter % nshards == shard && !f(seq) {
                    *stop = true;
                }
            }
            return;
        }
        for (i, op) in MOPS.iter().enumerate() {
            let mut n = st;
            let ok = match *op {
                MOp::Connect(r) => {
                    let r = r as usize;
                    if (st.role[r] == 0 || st.role[r] == 3) && st.connects < 4 {
                        n.role[r] = 1;
                        n.connects += 1;
                        true
                    } else {
                        false
                    }
                }
                MOp::SendReq(r) => {
                    let r = r as usize;
                    if st.role[r] == 1 && st.pending[r] < 2 {
                        n.pending[r] += 1;
                        n.any_req = true;
                        true
                    } else {
                        false
                    }
                }
                MOp::Close(r) => {
                    let r = r as usize;
                    if st.role[r] == 1 || st.role[r] == 2 {
                        n.role[r] = 3;
                        true
                    } else {
                        false
                    }
                }
                MOp::ShutWr(r) => {
                    let r = r as usize;
                    if st.role[r] == 1 {
                        n.role[r] = 2;
                        true
                    } else {
                        false
                    }
                }
                MOp::Read(r) => {
                    // reading is only observable at the end (the final audit reads everything)
                    let _ = r;
                    false
                }
                MOp::RespondOldest => {
                    if st.pending[0] + st.pending[1] > 0 {
                        if n.pending[0] > 0 { n.pending[0] -= 1 } else { n.pending[1] -= 1 }
                        true
                    } else {
                        false
                    }
                }
                MOp::RespondNewest => {
                    if st.pending[0] + st.pending[1] > 1 {
                        if n.pending[1] > 0 { n.pending[1] -= 1 } else { n.pending[0] -= 1 }
                        true
                    } else {
                        false
                    }
                }
            };
            if ok {
                seq.push(i as u64);
                rec(depth, n, seq, counter, shard, nshards, f, stop);
                seq.pop();
            }
        }
    }
    let mut seq = Vec::new();
    let mut counter = 0;
    let mut stop = false;
    rec(depth, St { role: [0, 0], pending: [0, 0], connects: 0, any_req: false }, &mut seq, &mut counter, shard, nshards, f, &mut stop);
}

fn c07_hist(input: &Input, obs: &mut Obs) -> Result<(), Fail> {
    let mut s = Src::new(input.bytes());
    world_variant(&mut s);
    let skeleton = s.weighted(&[6, 6, 3, 1, 1]);
    let nslots = if skeleton == 2 { 24 } else { 10 };
    let mut w = World::new(nslots, false, obs.want_render).map_err(|e| Fail::new("harness-world", e))?;
    let mut next_slot = 0usize;
    let mut orphaned = false;
    let mut connect_after_orphan = false;
    let mut late_respond = false;
    let mut two_orphans = 0;
    let r = (|| -> Result<(), (String, String)> {
        if skeleton == 1 {
            // c sends k requests, closes with them in flight, c' connects, the application answers
            // late (before or after c' sends), c' sends and is answered
            let c = next_slot;
            next_slot += 1;
            w.connect(c);
            w.settle(100, false);
            let k = s.range(1, 3);
            let spec = ReqSpec { method: 0, version: 1, body: 0, expect: false, extra_headers: 0, body_kind: 0 };
            for _ in 0..k {
                w.send_request(c, &spec, &[]);
            }
            w.settle(100, false);
            if w.outstanding.iter().any(|o| o.c == c) {
                orphaned = true;
                two_orphans = w.outstanding.len();
            }
            match s.below(3) {
                0 => w.close_client(c),
                1 => w.shutdown_client(c, libc::SHUT_WR),
                _ => w.shutdown_client(c, libc::SHUT_RDWR),
            }
            if s.chance(128) {
                w.settle(100, false);
            }
            // the application may flush at any time (here: after the client left, before the
            // newcomer arrives and before the late answers)
            if s.chance(90) {
                w.flush();
                obs.label("flush_after_client_left_with_requests_in_flight");
                if s.chance(128) {
                    w.settle(100, false);
                }
            }
            let c2 = next_slot;
            next_slot += 1;
            w.connect(c2);
            connect_after_orphan = orphaned;
            if s.chance(128) {
                w.settle(100, false);
            }
            let first = s.chance(128);
            if first {
                w.send_request(c2, &spec, &[]);
                if s.chance(128) {
                    w.settle(100, false);
                }
            }
            // late answers, any order
            while let Some(kk) = w.outstanding.iter().position(|o| o.c == c) {
                late_respond = true;
                let size = resp_size(&mut s, false);
                w.respond(kk, 200, size);
                if s.chance(100) {
                    w.poll();
                }
            }
            if !first {
                w.send_request(c2, &spec, &[]);
            }
            w.settle(200, false);
            c07_audit_all(&w)?;
        }
        if skeleton == 4 {
            // a client that does not read is answered with more than its socket takes and the
            // application flushes: the server gives that connection up (the response stays cut
            // short); whatever the application supplies for it afterwards must not follow the
            // truncated response on the wire
            let spec = ReqSpec { method: 0, version: 1, body: 0, expect: false, extra_headers: 0, body_kind: 0 };
            let c = next_slot;
            w.connect(c);
            next_slot += 1;
            let other = if s.chance(128) {
                w.connect(next_slot);
                next_slot += 1;
                Some(next_slot - 1)
            } else {
                None
            };
            w.settle(100, false);
            let k = if s.chance(90) { s.range(34, 50) } else { s.range(2, 4) };
            for _ in 0..k {
                w.send_request(c, &spec, &[]);
            }
            if let Some(o) = other {
                w.send_request(o, &spec, &[]);
            }
            w.settle(300, false);
            w.clients[c].lazy = true;
            if let Some(kk) = w.outstanding.iter().position(|o| o.c == c) {
                w.respond(kk, 200, [300_000usize, 600_000, 1_200_000][s.below(3)]);
                for _ in 0..s.below(3) {
                    w.poll();
                }
                if s.chance(150) {
                    w.flush();
                    obs.label("flush_to_a_client_that_does_not_read");
                } else {
                    obs.label("many_answers_queued_behind_a_partly_written_response");
                }
                // further answers for the same connection, and for the bystander
                while let Some(kk) = w.outstanding.iter().position(|o| o.c == c) {
                    w.respond(kk, 200, s.range(0, 100));
                    if s.chance(100) {
                        w.poll();
                    }
                    if k <= 4 && s.chance(60) {
                        w.flush();
                    }
                }
                if let Some(o) = other {
                    if let Some(kk) = w.outstanding.iter().position(|x| x.c == o) {
                        w.respond(kk, 200, s.range(0, 100));
                    }
                }
                // now the client reads, in pieces, with polls in between
                w.clients[c].lazy = false;
                for _ in 0..6 {
                    w.read_client(c, [1000usize, 100_000, usize::MAX][s.below(3)]);
                    w.settle(200, false);
                }
                w.read_client(c, usize::MAX);
            }
            w.settle(300, false);
            c07_audit_all(&w)?;
        }
        if skeleton == 3 {
            // many requests of several clients outstanding at once, answered through one (or a
            // few) large batches in which the clients' responses are interleaved
            let k = s.range(2, 4);
            let spec = ReqSpec { method: 0, version: 1, body: 0, expect: false, extra_headers: 0, body_kind: 0 };
            for _ in 0..k {
                w.connect(next_slot);
                next_slot += 1;
            }
            w.settle(100, false);
            let rounds = s.range(1, 3);
            for _ in 0..rounds {
                for c in 0..k {
                    let m = s.range(5, 30);
                    for _ in 0..m {
                        w.send_request(c, &spec, &[]);
                    }
                    if s.chance(128) {
                        w.settle(200, false);
                    }
                }
                w.settle(400, false);
            }
            let total = w.outstanding.len();
            if total > 32 {
                obs.label("batch_of_more_than_32_interleaved_responses");
            }
            // the application answers in an order of its own: per client in request order or not
            // (the order it supplies them in is the order each client must see)
            let nb = s.range(1, 3);
            for b in 0..nb {
                let n = w.outstanding.len();
                if n == 0 {
                    break;
                }
                let take = if b + 1 == nb { n } else { s.range(1, n) };
                // a permutation of the outstanding requests drawn from the case bytes
                let mut ks: Vec<usize> = (0..n).collect();
                match s.below(3) {
                    0 => {}
                    1 => {
                        // round-robin over the clients
                        ks.sort_by_key(|i| (w.outstanding[*i].j, w.outstanding[*i].c));
                    }
                    _ => {
                        for i in (1..n).rev() {
                            let j = s.below(i + 1);
                            ks.swap(i, j);
                        }
                    }
                }
                ks.truncate(take);
                w.respond_batch_in_order(&ks, 200, s.range(0, 60));
                if s.chance(100) {
                    w.settle(400, false);
                }
            }
            obs.label("batched_respond");
            w.settle(600, false);
            c07_audit_all(&w)?;
        }
        if skeleton == 2 {
            // the same story at connection capacity: 10 connections, one of them goes away with
            // requests in flight, further clients connect, the answers come late
            let spec = ReqSpec { method: 0, version: 1, body: 0, expect: false, extra_headers: 0, body_kind: 0 };
            for _ in 0..10 {
                w.connect(next_slot);
                next_slot += 1;
            }
            w.settle(100, false);
            let victim = s.below(10);
            let k = s.range(1, 2);
            for _ in 0..k {
                w.send_request(victim, &spec, &[]);
            }
            if s.chance(128) {
                let other = (victim + 1) % 10;
                w.send_request(other, &spec, &[]);
            }
            w.settle(100, false);
            if w.outstanding.iter().any(|o| o.c == victim) {
                orphaned = true;
            }
            if s.chance(170) { w.close_client(victim) } else { w.shutdown_client(victim, libc::SHUT_WR) }
            if s.chance(128) {
                w.settle(100, false);
            }
            let newcomers = s.range(1, 3);
            for _ in 0..newcomers {
                w.connect(next_slot);
                next_slot += 1;
                connect_after_orphan = orphaned;
                if s.chance(128) {
                    w.settle(100, false);
                }
            }
            if s.chance(128) {
                let c2 = next_slot - 1;
                w.send_request(c2, &spec, &[]);
            }
            while let Some(kk) = w.outstanding.iter().position(|o| o.c == victim) {
                late_respond = true;
                w.respond(kk, 200, s.range(0, 300));
                if s.chance(100) {
                    w.poll();
                }
            }
            w.settle(200, false);
            c07_audit_all(&w)?;
            obs.label("at_capacity_skeleton");
        }
        let nops = s.range(3, 60);
        for _ in 0..nops {
            let conn = connected(&w);
            match s.weighted(&[4, 10, 3, 4, 2, 2, 4, 8, 8, 3]) {
                0 => {
                    if next_slot < nslots && conn.len() < 4 {
                        w.connect(next_slot);
                        next_slot += 1;
                        if orphaned {
                            connect_after_orphan = true;
                        }
                    }
                }
                1 => {
                    if !conn.is_empty() {
                        let c = conn[s.below(conn.len())];
                        let spec = spec_from(&mut s, true, false);
                        let ncuts = s.weighted(&[6, 3, 1]);
                        let cuts: Vec<usize> = (0..ncuts).map(|_| s.u16() as usize).collect();
                        w.send_request(c, &spec, &cuts);
                    }
                }
                2 => {
                    if !conn.is_empty() {
                        let c = conn[s.below(conn.len())];
                        w.clients[c].dirty = true;
                        w.send_raw(c, GARBAGE[s.below(GARBAGE.len())]);
                    }
                }
                3 => {
                    if !conn.is_empty() {
                        let c = conn[s.below(conn.len())];
                        if w.outstanding.iter().any(|o| o.c == c) {
                            orphaned = true;
                        }
                        w.close_client(c);
                    }
                }
                4 => {
                    if !conn.is_empty() {
                        let c = conn[s.below(conn.len())];
                        if w.outstanding.iter().any(|o| o.c == c) {
                            orphaned = true;
                        }
                        let how = [libc::SHUT_WR, libc::SHUT_RD, libc::SHUT_RDWR][s.below(3)];
                        w.shutdown_client(c, how);
                    }
                }
                5 => {
                    let staged: Vec<usize> = conn.iter().copied().filter(|c| !w.clients[*c].staged.is_empty()).collect();
                    if !staged.is_empty() {
                        w.send_next(staged[s.below(staged.len())]);
                    }
                }
                6 => {
                    if !conn.is_empty() {
                        let c = conn[s.below(conn.len())];
                        w.read_client(c, [usize::MAX, 10, 3000][s.below(3)]);
                    }
                }
                7 => {
                    w.poll();
                }
                8 => {
                    if !w.outstanding.is_empty() {
                        let k = s.below(w.outstanding.len());
                        let c = w.outstanding[k].c;
                        let gone = w.clients[c].state != CState::Connected || w.clients[c].shut_wr || w.clients[c].shut_rd;
                        if gone && connect_after_orphan {
                            late_respond = true;
                        }
                        if k > 0 {
                            obs.label("out_of_order_respond");
                        }
                        let size = resp_size(&mut s, true);
                        w.respond(k, CODES[s.below(CODES.len())], size);
                    }
                }
                _ => {
                    if w.outstanding.len() >= 2 && s.chance(128) {
                        // a batch through enqueue_responses (several for one connection keep their order)
                        let n = s.range(2, w.outstanding.len().min(5));
                        let ks: Vec<usize> = (0..n).map(|_| s.below(w.outstanding.len())).collect();
                        w.respond_batch(&ks, 200, s.range(0, 200));
                        obs.label("batched_respond");
                    }
                    w.settle(200, false);
                    c07_audit_all(&w)?;
                }
            }
        }
        if w.outstanding.len() >= 2 && s.chance(128) {
            let ks: Vec<usize> = (0..w.outstanding.len()).collect();
            w.respond_batch(&ks, 200, 40);
            obs.label("batched_respond");
        }
        while !w.outstanding.is_empty() {
            let k = s.below(w.outstanding.len());
            w.respond(k, 200, 40);
        }
        w.settle(300, false);
        c07_audit_all(&w)?;
        Ok(())
    })();
    obs.nontrivial = orphaned && connect_after_orphan && late_respond;
    if orphaned {
        obs.label("closed_with_requests_in_flight");
    }
    if late_respond {
        obs.label("late_respond_after_reconnect");
    }
    if two_orphans >= 2 {
        obs.label("two_orphans");
    }
    obs.case_hash = Some(fnv64(input.bytes()));
    if obs.want_render {
        obs.render = w.render();
    }
    match r {
        Ok(()) => Ok(()),
        Err((sig, msg)) => Err(wfail("C07", &sig, msg, &w)),
    }
}

/// "with any delay": the application answers after a real-time pause during which nothing happens
/// on the connection; params = [pause in ms, variant (0: the owner stays connected and silent,
/// 1: the owner has left with its request in flight)]
fn c07_delay(input: &Input, obs: &mut Obs) -> Result<(), Fail> {
    let p = input.params();
    let (ms, variant) = (p[0], p[1]);
    let mut w = World::new(4, false, obs.want_render).map_err(|e| Fail::new("harness-world", e))?;
    let r = (|| -> Result<(), (String, String)> {
        let spec = ReqSpec { method: 0, version: 1, body: 0, expect: false, extra_headers: 1, body_kind: 0 };
        w.connect(0);
        w.settle(1000, true);
        w.send_request(0, &spec, &[]);
        w.send_request(0, &spec, &[]);
        w.settle(1000, true);
        if w.outstanding.len() != 2 {
            return Err(("harness-world".into(), format!("{} requests yielded, expected 2", w.outstanding.len())));
        }
        // one of the two is answered at once, the other one late
        w.respond(0, 200, 40);
        w.settle(1000, true);
        w.read_client(0, usize::MAX);
        if variant == 1 {
            w.close_client(0);
            w.settle(1000, true);
        }
        std::thread::sleep(std::time::Duration::from_millis(ms));
        // something else wakes the server up; then a newcomer (whose socket gets the lowest free
        // descriptor number on the server's side)
        w.connect(1);
        w.settle(1000, true);
        w.connect(2);
        w.settle(1000, true);
        w.send_request(2, &spec, &[]);
        w.settle(1000, true);
        // the late answer, then the newcomer's
        while !w.outstanding.is_empty() {
            w.respond(0, 200, 60);
            w.settle(1000, true);
        }
        for c in 0..3 {
            w.read_client(c, usize::MAX);
        }
        c07_audit_all(&w)
    })();
    obs.nontrivial = true;
    if obs.want_render {
        obs.render = format!("pause {} ms, variant {}\n{}", ms, variant, w.render());
    }
    match r {
        Ok(()) => Ok(()),
        Err((sig, msg)) if sig.starts_with("harness") => Err(Fail::new(&sig, msg)),
        Err((sig, msg)) => Err(wfail("C07", &sig, format!("after a pause of {} ms: {}", ms, msg), &w)),
    }
}

fn c07_delay_enum(tier: Tier, shard: u64, nshards: u64, f: &mut dyn FnMut(&[u64]) -> bool) {
    let pauses: &[u64] = if tier == Tier::Quick { &[1_200, 5_300] } else { &[1_200, 5_300, 10_500, 20_500] };
    let mut c = 0u64;
    for ms in pauses {
        for v in 0..2u64 {
            c += 1;
            if c % nshards == shard && !f(&[*ms, v]) {
                return;
            }
        }
    }
}

fn c07_plan(tier: Tier) -> Vec<Job> {
    let q = tier == Tier::Quick;
    vec![
        Job { sub: "macro", kind: JobKind::Enum { f: c07_macro_enum, bound: if q { "all applicable macro-operation sequences of depth 6 over {connect, send request, close, half-close} x 2 client roles and {respond oldest, respond newest}, each followed by a settle (sequences containing a request)" } else { "same, depth 7" } }, smallbuf: false },
        Job { sub: "hist", kind: JobKind::Pbt { cases: if q { 40_000 } else { 800_000 }, max_len: 600 }, smallbuf: false },
        Job { sub: "delay", kind: JobKind::Enum { f: c07_delay_enum, bound: "late answer after a real-time pause of 1.2 s and 5.3 s (thorough: also 10.5 s and 20.5 s) x {owner connected and silent, owner gone}; a newcomer connects after the pause" }, smallbuf: false },
    ]
}

pub fn c07() -> PropDef {
    PropDef {
        id: "C07",
        subs: vec![("macro", c07_macro), ("hist", c07_hist), ("delay", c07_delay)],
        plan: c07_plan,
        rule: "case = history over up to 4 simultaneous clients (10 slots): connect, send tagged request (whole or in pieces), garbage, close, shutdown(WR/RD/RDWR), read, poll, respond to any outstanding request in any order with 0..320 KB; skeleton 'close with k requests in flight, new client connects (the kernel hands the server the descriptor number it just released), late answers before/after the new client's first request'; plus bounded-exhaustive macro-operation sequences; every request and response carries a tag naming its client; oracle = everything each client ever received parses (independent response reader) into responses that are its own application responses (byte-exact, at most once, in supply order) or server-generated replies justified by its own input, no foreign tag anywhere, respond() accepted; non-trivial = a client went away with >=1 request in flight, a later connect, and a later respond to the orphaned request; skeleton 'large batch': 2..4 clients pipeline 5..30 requests each, all answered through 1..3 enqueue_responses calls in yield order, round-robin or a drawn permutation (supply order is what each client must see)",
        assumptions: vec!["client sockets are created before the history and closed by dup2 so that descriptor numbers released by the server are reused by its next accept"],
        single_threaded_world: true,
    }
}

// =======================================================================================
// C18

#[derive(Clone, Debug)]
enum KOp {
    /// every connected client sends something (partial or complete) without a poll in between
    SendAll(bool),
    Connect,
    Send(ReqSpec, Vec<usize>),
    SendPartial(ReqSpec, usize),
    Read(usize),
    Close(usize),
    Poll,
    /// (which outstanding request, body size, status, response version: 0/1, 2 = the request's)
    Respond(usize, usize, u16, u8),
    Settle,
    Flush,
    /// a second response for an already answered request of an idle connection
    Surplus(usize),
    /// every connected client pipelines this many small requests, no poll in between
    BurstAll(usize),
    /// one client sends a long malformed header line made of multi-byte characters
    LongGarbage(usize, usize, usize),
    /// one client pipelines more than a thousand small requests; the server is polled until it
    /// has yielded about `target` of them (the rest is still unread), nothing is answered
    Flood(usize, usize, usize),
}

fn k_apply(w: &mut World, op: &KOp, next_slot: &mut usize) {
    let conn = connected(w);
    match op {
        KOp::SendAll(complete) => {
            for c in conn {
                if *complete {
                    let spec = ReqSpec { method: 0, version: 1, body: 0, expect: false, extra_headers: 0, body_kind: 0 };
                    w.send_request(c, &spec, &[]);
                } else {
                    w.send_raw(c, b"GET /partial");
                    w.clients[c].dirty = true;
                }
            }
        }
        KOp::Connect => {
            if *next_slot < w.clients.len() {
                w.connect(*next_slot);
                *next_slot += 1;
            }
        }
        KOp::Send(spec, cuts) => {
            if !conn.is_empty() {
                let c = conn[cuts.first().copied().unwrap_or(0) % conn.len()];
                w.send_request(c, spec, &cuts[1.min(cuts.len())..]);
            }
        }
        KOp::SendPartial(spec, cut) => {
            if !conn.is_empty() {
                let c = conn[*cut % conn.len()];
                if w.clients[c].staged.is_empty() {
                    w.send_request(c, spec, &[1 + *cut % 30]);
                    w.clients[c].staged.clear();
                    w.clients[c].dirty = true;
                }
            }
        }
        KOp::Read(i) => {
            if !conn.is_empty() {
                w.read_client(conn[*i % conn.len()], usize::MAX);
            }
        }
        KOp::Close(i) => {
            if !conn.is_empty() {
                w.close_client(conn[*i % conn.len()]);
            }
        }
        KOp::Poll => {
            w.poll();
        }
        KOp::Respond(k, size, code, v) => {
            if !w.outstanding.is_empty() {
                let k = *k % w.outstanding.len();
                w.respond_v(k, *code, *size, if *v < 2 { Some(*v) } else { None });
            }
        }
        KOp::Settle => {
            w.settle(300, true);
        }
        KOp::Flush => {
            w.flush();
        }
        KOp::Surplus(i) => {
            w.respond_surplus(*i);
        }
        KOp::BurstAll(n) => {
            let spec = ReqSpec { method: 0, version: 1, body: 0, expect: false, extra_headers: 0, body_kind: 0 };
            for c in conn {
                if w.clients[c].dirty || !w.clients[c].staged.is_empty() {
                    continue;
                }
                for _ in 0..*n {
                    w.send_request(c, &spec, &[]);
                }
            }
        }
        KOp::Flood(who, n, target) => {
            if !conn.is_empty() {
                let c = conn[*who % conn.len()];
                if !w.clients[c].dirty && w.clients[c].staged.is_empty() {
                    let spec = ReqSpec { method: 0, version: 1, body: 0, expect: false, extra_headers: 0, body_kind: 0 };
                    let before = w.clients[c].yielded.len();
                    for _ in 0..*n {
                        w.send_request(c, &spec, &[]);
                    }
                    let mut guard = 0;
                    // (tiny sends are charged a whole buffer each: the socket takes a few hundred at a
                    // time, the rest goes out as the server reads)
                    while w.clients[c].yielded.len() - before < *target && guard < 400 {
                        guard += 1;
                        w.send_next(c);
                        w.poll();
                    }
                    w.send_next(c);
                }
            }
        }
        KOp::LongGarbage(who, pre, n) => {
            if !conn.is_empty() {
                let c = conn[*who % conn.len()];
                let mut g = b"GET / HTTP/1.1\r\nContent-Length: ".to_vec();
                g.extend(std::iter::repeat(b'a').take(*pre));
                for _ in 0..*n {
                    g.extend_from_slice("\u{e9}".as_bytes());
                }
                g.extend_from_slice(b"\r\n\r\n");
                w.clients[c].dirty = true;
                w.send_raw(c, &g);
            }
        }
    }
}

fn k_gen(s: &mut Src) -> (Vec<KOp>, bool) {
    let n = s.range(3, 40);
    let fill = s.chance(60); // start at capacity
    let mut ops = Vec::new();
    if fill {
        for _ in 0..10 {
            ops.push(KOp::Connect);
        }
        ops.push(KOp::Settle);
        ops.push(KOp::Connect); // an eleventh waits in the backlog
        if s.chance(150) {
            // ... while every connection has unread input: more ready descriptors than connections
            ops.push(KOp::SendAll(s.chance(128)));
        }
    }
    for _ in 0..n {
        let op = match s.weighted(&[5, 10, 3, 3, 2, 8, 6, 3, 2, 1, 2, 2, 1, 1]) {
            13 => KOp::Flood(s.u8() as usize, s.range(1030, 1500), [990usize, 1010, 1024, 1025, 1040, 1100][s.below(6)]),
            12 => KOp::LongGarbage(s.u8() as usize, s.below(4), s.range(100, 400)),
            11 => KOp::BurstAll(s.range(20, 45)),
            10 => KOp::Surplus(s.u8() as usize),
            9 => KOp::Flush,
            8 => KOp::SendAll(s.chance(128)),
            0 => KOp::Connect,
            1 => {
                let spec = spec_from(s, true, false);
                let k = 1 + s.below(3);
                KOp::Send(spec, (0..k).map(|_| s.u16() as usize).collect())
            }
            2 => KOp::SendPartial(spec_from(s, false, false), s.u8() as usize),
            3 => KOp::Read(s.u8() as usize),
            4 => KOp::Close(s.u8() as usize),
            5 => KOp::Poll,
            6 => KOp::Respond(s.u8() as usize, resp_size(s, true), [200u16, 200, 404, 100, 204, 503][s.weighted(&[8, 8, 2, 2, 2, 1])], s.weighted(&[2, 2, 8]) as u8),
            _ => KOp::Settle,
        };
        ops.push(op);
    }
    (ops, fill)
}

struct KTranscript {
    polls: Vec<PollRes>,
    recv: Vec<Vec<u8>>,
    yielded: Vec<Vec<usize>>,
    api_errors: usize,
}

fn k_transcript(w: &World) -> KTranscript {
    KTranscript {
        polls: w.poll_results.clone(),
        recv: w.clients.iter().map(|c| c.recv.clone()).collect(),
        yielded: w.clients.iter().map(|c| c.yielded.clone()).collect(),
        api_errors: w.api_errors.len(),
    }
}

fn c18_kill(input: &Input, obs: &mut Obs) -> Result<(), Fail> {
    let mut s = Src::new(input.bytes());
    world_variant(&mut s);
    let (ops, fill) = k_gen(&mut s);
    let extra_seed = s.u32();
    // API call order: kill switch registered before or after start_server
    let after_start = s.chance(128);
    KILL_AFTER_START.with(|c| c.set(after_start));
    if after_start {
        obs.label("kill_switch_added_after_start");
    }
    // descriptor number of the switch: whatever the process hands out, or 0
    struct Fd0Guard;
    impl Drop for Fd0Guard {
        fn drop(&mut self) {
            KILL_ON_FD0.with(|c| c.set(false));
            KILL_BLOCKING.with(|c| c.set(false));
        }
    }
    let _fd0_guard = Fd0Guard;
    // the switch may be an EventFd in blocking mode: the server must only ever watch it
    if s.chance(60) {
        KILL_BLOCKING.with(|c| c.set(true));
        obs.label("kill_switch_in_blocking_mode");
    }
    let on_fd0 = s.chance(60);
    KILL_ON_FD0.with(|c| c.set(on_fd0));
    if on_fd0 {
        obs.label("kill_switch_is_descriptor_0");
    }
    let mut nontrivial_points = 0u64;
    let mut evals = 0u64;
    // the shutdown may also have been requested before the switch was handed to the server
    if s.chance(24) {
        KILL_PRESIGNALLED.with(|c| c.set(true));
        let mut w = World::new(16, true, obs.want_render).map_err(|e| Fail::new("harness-world", e))?;
        let mut next_slot = 0;
        let mut e = extra_seed;
        for i in 0..6 {
            if !w.epoll_ready() {
                return Err(wfail("C18", "blocks", format!("kill switch signalled before it was registered; before requests() call #{} the epoll descriptor is not readable: the call would block", i + 1), &w));
            }
            match w.poll() {
                PollRes::Err(ref x) if x == "ShutdownEvent" => {}
                other => {
                    return Err(wfail("C18", "not-shutdown:presignalled", format!("kill switch signalled before it was registered; requests() call #{} returned {:?} instead of ShutdownEvent", i + 1, other), &w));
                }
            }
            e = e.wrapping_mul(1664525).wrapping_add(1013904223);
            if (e >> 24) % 2 == 0 && next_slot < 12 {
                w.connect(next_slot);
                if (e >> 16) % 2 == 0 {
                    w.send_raw(next_slot, b"GET /x HTTP/1.1\r\n\r\n");
                    w.clients[next_slot].dirty = true;
                }
                next_slot += 1;
            }
        }
        obs.label("kill_switch_signalled_before_registration");
        evals += 1;
    }
    // kill at every position of the history
    for p in 0..=ops.len() {
        let mut w = World::new(16, true, obs.want_render && p == ops.len() / 2).map_err(|e| Fail::new("harness-world", e))?;
        w.keep_answered = true;
        let mut next_slot = 0;
        for op in &ops[..p] {
            k_apply(&mut w, op, &mut next_slot);
        }
        // classify the state at the kill point
        let partial = w.clients.iter().any(|c| c.dirty && c.state == CState::Connected);
        let unsent_out = w.clients.iter().any(|c| c.expected.iter().map(|e| e.bytes.len()).sum::<usize>() > c.recv.len() + 200_000);
        let unanswered = !w.outstanding.is_empty();
        let at_cap = connected(&w).len() >= 10;
        let errors_before = w.poll_results.iter().any(|r| matches!(r, PollRes::Err(_)));
        if errors_before {
            // a failing requests() before the kill is another property's subject
            obs.label("pre_kill_error_offtopic");
            continue;
        }
        if partial || unsent_out || unanswered || at_cap {
            nontrivial_points += 1;
        }
        if w.surplus_responds > 0 {
            obs.label("surplus_response_before_kill");
        }
        if partial {
            obs.label("kill_with_partial_request");
        }
        if unsent_out {
            obs.label("kill_with_unsent_output");
        }
        if unanswered {
            obs.label("kill_with_unanswered_requests");
        }
        if w.outstanding.len() >= 1000 {
            obs.label("kill_with_1000+_unanswered_requests");
        }
        if at_cap {
            obs.label("kill_at_capacity");
        }
        w.kill();
        evals += 1;
        let mut e = extra_seed;
        for i in 0..5 {
            if !w.epoll_ready() {
                let f = wfail("C18", "blocks", format!("kill switch signalled after {} operations; before requests() call #{} after the signal the epoll descriptor is not readable: the call would block", p, i + 1), &w);
                return Err(f);
            }
            match w.poll() {
                PollRes::Err(ref x) if x == "ShutdownEvent" => {}
                other => {
                    let f = wfail("C18", &format!("not-shutdown:{:?}", match &other { PollRes::Err(x) => x.clone(), PollRes::Ok(_) => "Ok".into(), _ => "NotReady".into() }), format!("kill switch signalled after {} operations; requests() call #{} after the signal returned {:?} instead of ShutdownEvent", p, i + 1, other), &w);
                    return Err(f);
                }
            }
            // further client activity between the calls
            e = e.wrapping_mul(1664525).wrapping_add(1013904223);
            let conn = connected(&w);
            match (e >> 24) % 5 {
                0 => {
                    if next_slot < w.clients.len() {
                        w.connect(next_slot);
                        next_slot += 1;
                    }
                }
                1 => {
                    if !conn.is_empty() {
                        let c = conn[(e as usize >> 8) % conn.len()];
                        w.send_raw(c, b"GET /late HTTP/1.1\r\n\r\n");
                        w.clients[c].dirty = true;
                    }
                }
                2 => {
                    if !conn.is_empty() {
                        w.close_client(conn[(e as usize >> 8) % conn.len()]);
                    }
                }
                _ => {}
            }
        }
        if obs.want_render && p == ops.len() / 2 {
            obs.render = format!("ops={:?}\nkill after {} ops\n{}", ops.iter().map(|o| format!("{:?}", o).chars().take(40).collect::<String>()).collect::<Vec<_>>(), p, w.render());
        }
    }
    // differential: no kill switch vs registered-but-unsignalled
    let run = |with_kill: bool| -> Result<KTranscript, Fail> {
        let mut w = World::new(16, with_kill, false).map_err(|e| Fail::new("harness-world", e))?;
        w.keep_answered = true;
        let mut next_slot = 0;
        for op in &ops {
            k_apply(&mut w, op, &mut next_slot);
        }
        w.settle(400, true);
        Ok(k_transcript(&w))
    };
    let a = run(false)?;
    let b = run(true)?;
    evals += 1;
    if a.recv != b.recv || a.yielded != b.yielded || a.polls != b.polls || a.api_errors != b.api_errors {
        let what = if a.recv != b.recv { "bytes received by clients" } else if a.yielded != b.yielded { "requests yielded" } else if a.polls != b.polls { "requests() return values" } else { "respond() return values" };
        return Err(Fail::new("C18:presence-changes-service", format!("the same history behaves differently with a registered, never signalled kill switch: {} differ\nops={:?}", what, ops)));
    }
    if fill {
        obs.label("started_at_capacity");
    }
    obs.extra_evals = evals.saturating_sub(1);
    obs.nontrivial = nontrivial_points > 0;
    obs.case_hash = Some(fnv64(input.bytes()));
    Ok(())
}

/// one client has more than a thousand requests unanswered and more of them unread in its socket
/// when the kill switch is signalled (a state of C08/C10 floods): every following call reports
/// the shutdown
fn c18_flood(input: &Input, obs: &mut Obs) -> Result<(), Fail> {
    let mut s = Src::new(input.bytes());
    world_variant(&mut s);
    let mut w = World::new(16, true, obs.want_render).map_err(|e| Fail::new("harness-world", e))?;
    w.keep_answered = true;
    let mut next_slot = 0;
    let nclients = s.range(1, 3);
    for _ in 0..nclients {
        k_apply(&mut w, &KOp::Connect, &mut next_slot);
    }
    w.settle(400, true);
    let n = s.range(1100, 1500);
    let target = [700usize, 900, 960, 990, 1000, 1010, 1020, 1023][s.below(8)];
    let who = s.u8() as usize;
    // a few requests of the other clients are outstanding as well
    if s.chance(128) {
        k_apply(&mut w, &KOp::SendAll(true), &mut next_slot);
        k_apply(&mut w, &KOp::Poll, &mut next_slot);
    }
    k_apply(&mut w, &KOp::Flood(who, n, target), &mut next_slot);
    if w.poll_results.iter().any(|r| matches!(r, PollRes::Err(_))) {
        obs.label("pre_kill_error_offtopic");
        return Ok(());
    }
    let unread = w.outstanding.len() < n;
    w.kill();
    for i in 0..6 {
        if !w.epoll_ready() {
            return Err(wfail("C18", "blocks", format!("kill switch signalled with {} requests unanswered; before requests() call #{} after the signal the epoll descriptor is not readable: the call would block", w.outstanding.len(), i + 1), &w));
        }
        let pr = w.poll();
        if std::env::var("MHV_DEBUG").is_ok() {
            eprintln!("post-kill poll {} -> {:?}; outstanding {}", i, pr, w.outstanding.len());
        }
        match pr {
            PollRes::Err(ref x) if x == "ShutdownEvent" => {}
            other => {
                return Err(wfail("C18", &format!("not-shutdown:{:?}", match &other { PollRes::Err(x) => x.clone(), PollRes::Ok(_) => "Ok".into(), _ => "NotReady".into() }), format!("kill switch signalled with {} requests of one client unanswered and more unread; requests() call #{} after the signal returned {:?} instead of ShutdownEvent", w.outstanding.len(), i + 1, other), &w));
            }
        }
    }
    if w.outstanding.len() >= 1000 {
        obs.label("kill_with_1000+_unanswered_requests");
    }
    if unread {
        obs.label("kill_with_unread_pipelined_requests");
    }
    obs.nontrivial = unread;
    obs.case_hash = Some(fnv64(input.bytes()));
    if obs.want_render {
        obs.render = format!("{} clients; client {} pipelines {} requests, polled until {} were yielded; kill; 6 polls", nclients, who % nclients, n, target);
    }
    Ok(())
}

fn c18_plan(tier: Tier) -> Vec<Job> {
    let q = tier == Tier::Quick;
    vec![
        Job { sub: "kill", kind: JobKind::Pbt { cases: if q { 2_500 } else { 50_000 }, max_len: 500 }, smallbuf: false },
        Job { sub: "flood", kind: JobKind::Pbt { cases: if q { 160 } else { 3_200 }, max_len: 24 }, smallbuf: false },
    ]
}

pub fn c18() -> PropDef {
    PropDef {
        id: "C18",
        subs: vec![("kill", c18_kill), ("flood", c18_flood)],
        plan: c18_plan,
        rule: "case = server history of <=52 operations (connect up to and beyond capacity, whole/split/partial requests, reads, closes, polls, responses up to 320 KB, settles), replayed once per position with the kill switch signalled at that position and followed by 5 requests() calls interleaved with further client activity, plus the whole history once without a kill switch and once with a registered, never signalled one; oracle = after the signal every call finds the epoll descriptor readable (poll(2), so it cannot block) and returns ShutdownEvent; before it, per-client received bytes, yielded requests and all return values are identical with and without the registered switch; non-trivial = at some kill point the server had a partial request buffered, unsent output, unanswered requests or >=10 connections; evaluations count (history, position) pairs; variants: kill switch registered before/after start_server, already signalled when registered, being descriptor number 0; a surplus response (ServerRequest::process called again) for an idle connection; sub 'flood': one client pipelines 1100..1500 requests, the server is polled until 700..1023 of them were yielded (none answered, the rest unread), kill, 6 polls",
        assumptions: vec!["histories in which requests() already failed before the signal are skipped at that position (other properties judge them)"],
        single_threaded_world: true,
    }
}

// =======================================================================================
// server parts of C04, C11, C13

fn c04_server(input: &Input, obs: &mut Obs) -> Result<(), Fail> {
    // construction variant fixed for this sub (replays must not depend on earlier cases)
    SERVER_FROM_FD.with(|c| c.set(false));
    KILL_AFTER_START.with(|c| c.set(false));
    let mut s = Src::new(input.bytes());
    let mut w = World::new(8, false, obs.want_render).map_err(|e| Fail::new("harness-world", e))?;
    let limits = [0usize, 1, 2, 5, 8, 1023, 1024, 1025, 51199, 51200, 51201];
    let mut next = 0usize;
    let mut near = false;
    let r = (|| -> Result<(), (String, String)> {
        let rounds = s.range(1, 4);
        for _ in 0..rounds {
            // connect a client under the current limit, then change the limit at a quiescent point
            if next < 8 {
                w.connect(next);
                next += 1;
            }
            w.settle(200, true);
            if s.chance(180) {
                let l = limits[s.below(limits.len())];
                w.set_limit(l);
                obs.label("limit_changed_between_connects");
            }
            if next < 8 && s.chance(128) {
                w.connect(next);
                next += 1;
                w.settle(200, true);
            }
            // now and then a client first receives a response that took the server several writes
            // (it reads late): the verdict on its next request is delivered all the same
            if s.chance(40) {
                if let Some(c) = connected(&w).into_iter().find(|c| !w.clients[*c].dirty && w.clients[*c].limit >= 1) {
                    let spec = ReqSpec { method: 0, version: 1, body: 0, expect: false, extra_headers: 0, body_kind: 0 };
                    w.clients[c].lazy = true;
                    w.send_request(c, &spec, &[]);
                    w.settle(200, true);
                    if let Some(kk) = w.outstanding.iter().position(|o| o.c == c) {
                        w.respond(kk, 200, [300_000usize, 700_000][s.below(2)]);
                        w.settle(200, true);
                        obs.label("earlier_response_needed_several_writes");
                    }
                    w.clients[c].lazy = false;
                    // (however many polls the server needs to get the rest out)
                    let b = w.progress_bound();
                    w.settle(b, true);
                }
            }
            // every connected client sends a request with n around its own limit
            for c in connected(&w) {
                if w.clients[c].dirty {
                    continue;
                }
                let l = w.clients[c].limit;
                let cands = [l.saturating_sub(1), l, l + 1, l + 2, 1, 2 * l + 1];
                let n = cands[s.below(cands.len())].max(1).min(70_000);
                if (n as i64 - l as i64).abs() <= 1 {
                    near = true;
                }
                let spec = ReqSpec { method: 1 + s.below(2) as u8, version: 1, body: n, expect: false, extra_headers: s.below(2), body_kind: 0 };
                let over = n > l;
                if over {
                    // headers only: the verdict must come before any body byte
                    let front = l >= 3 && s.chance(100);
                    let mut bytes = Vec::new();
                    let n100_before = audit_client(&w, c)?.n100;
                    if front {
                        // a complete request with Expect: 100-continue pipelined in front, same send:
                        // the client must get both the interim response and the 400
                        let fs = ReqSpec { method: 1, version: 1, body: 3, expect: true, extra_headers: 0, body_kind: 0 };
                        bytes.extend_from_slice(&w.compose(c, &fs));
                        obs.label("over_limit_behind_expect_request_in_one_send");
                    }
                    let probe = w.compose(c, &spec);
                    let hdr = probe.len() - n;
                    w.clients[c].dirty = true;
                    bytes.extend_from_slice(&probe[..hdr]);
                    w.send_raw(c, &bytes);
                    w.settle(200, true);
                    let a = audit_client(&w, c)?;
                    if front && a.n100 != n100_before + 1 {
                        return Err(("interim".into(), format!("the qualifying Expect request in front of the over-limit one got {} interim responses", a.n100 - n100_before)));
                    }
                    if a.n400 != 1 {
                        return Err(("no-400".into(), format!("client {} (limit {} when it connected) declared {} bytes and received {} 400 responses", c, l, n, a.n400)));
                    }
                    let (resps, _) = crate::respread::rr_parse(&w.clients[c].recv);
                    let body = resps.iter().find(|r| r.code == 400).map(|r| String::from_utf8_lossy(&r.body).to_string()).unwrap_or_default();
                    let has = |x: usize| {
                        let t = x.to_string();
                        body.match_indices(&t).any(|(i, _)| {
                            let before = body[..i].chars().last().map(|c| c.is_ascii_digit()).unwrap_or(false);
                            let after = body[i + t.len()..].chars().next().map(|c| c.is_ascii_digit()).unwrap_or(false);
                            !before && !after
                        })
                    };
                    if !has(n) || !has(l) {
                        return Err(("400-numbers".into(), format!("the 400 for declared {} under limit {} does not report both numbers: \"{}\"", n, l, body)));
                    }
                    if w.clients[c].yielded.contains(&(w.clients[c].composed.len() - 1)) {
                        return Err(("yielded-over-limit".into(), "a request over the limit was yielded".into()));
                    }
                    obs.label("rejected_over_limit");
                    // now and then the client tries the very same head again: the same verdict,
                    // answered again
                    if !front && s.chance(60) {
                        w.send_raw(c, &probe[..hdr]);
                        w.settle(200, true);
                        let a2 = audit_client(&w, c)?;
                        if a2.n400 != 2 {
                            return Err(("no-400".into(), format!("client {} (limit {}) declared {} bytes twice in a row and received {} 400 responses", c, l, n, a2.n400)));
                        }
                        let (resps, _) = crate::respread::rr_parse(&w.clients[c].recv);
                        let body2 = resps.iter().filter(|r| r.code == 400).nth(1).map(|r| String::from_utf8_lossy(&r.body).to_string()).unwrap_or_default();
                        if !body2.contains(&n.to_string()) || !body2.contains(&l.to_string()) {
                            return Err(("400-numbers".into(), format!("the second 400 for declared {} under limit {} does not report both numbers: \"{}\"", n, l, body2)));
                        }
                        obs.label("same_violation_twice_in_a_row");
                    }
                } else {
                    w.send_request(c, &spec, &[]);
                    w.settle(400, true);
                    let j = w.clients[c].composed.len() - 1;
                    if !w.clients[c].yielded.contains(&j) {
                        let a = audit_client(&w, c)?;
                        return Err(("not-yielded".into(), format!("client {} (limit {} when it connected) sent a request with {} body bytes; it was not yielded (400s received: {})", c, l, n, a.n400)));
                    }
                    if let Some(k) = w.outstanding.iter().position(|o| o.c == c && o.j == j) {
                        w.respond(k, 200, 10);
                    }
                    obs.label("accepted_within_limit");
                }
            }
            w.settle(200, true);
            // now and then a client sends a header line beyond the line limit, made of multi-byte
            // characters behind a name of 1..8 letters (every alignment): refused with a 400
            if s.chance(50) {
                let conn = connected(&w);
                if !conn.is_empty() {
                    let c = conn[s.below(conn.len())];
                    let before = audit_client(&w, c)?.n400;
                    let mut g = b"GET / HTTP/1.1\r\n".to_vec();
                    g.extend_from_slice(&b"X-Filler"[..s.range(1, 8)]);
                    g.extend_from_slice(b": ");
                    let ch = ["\u{e9}", "\u{4e2d}", "\u{1f600}", "a\u{e9}"][s.below(4)];
                    while g.len() < 16 + 1030 {
                        g.extend_from_slice(ch.as_bytes());
                    }
                    g.extend_from_slice(b"\r\n\r\n");
                    w.clients[c].dirty = true;
                    w.send_raw(c, &g);
                    w.settle(200, true);
                    if let Some(PollRes::Err(e)) = w.poll_results.iter().find(|r| matches!(r, PollRes::Err(_))) {
                        return Err((format!("requests-err:{}", e.chars().take(40).collect::<String>()), format!("a header line beyond the line limit: requests() returned Err({})", e)));
                    }
                    let a = audit_client(&w, c)?;
                    if a.n400 <= before {
                        return Err(("no-400".into(), format!("client {} sent a header line of more than 1024 bytes and received no 400", c)));
                    }
                    obs.label("over-long_multi-byte_header_line");
                }
            }
        }
        if let Some(PollRes::Err(e)) = w.poll_results.iter().find(|r| matches!(r, PollRes::Err(_))) {
            return Err((format!("requests-err:{}", e), format!("requests() returned Err({})", e)));
        }
        if let Some(f) = w.yield_faults.first() {
            return Err(("yield".into(), f.clone()));
        }
        Ok(())
    })();
    obs.nontrivial = near;
    obs.case_hash = Some(fnv64(input.bytes()));
    if obs.want_render {
        obs.render = w.render();
    }
    match r {
        Ok(()) => Ok(()),
        Err((sig, msg)) => Err(wfail("C04", &sig, msg, &w)),
    }
}

pub fn c04_server_sub() -> (&'static str, SubFn) {
    ("server", c04_server)
}

fn c11_server(input: &Input, obs: &mut Obs) -> Result<(), Fail> {
    // construction variant fixed for this sub (replays must not depend on earlier cases)
    SERVER_FROM_FD.with(|c| c.set(false));
    KILL_AFTER_START.with(|c| c.set(false));
    let mut s = Src::new(input.bytes());
    let mut w = World::new(3, false, obs.want_render).map_err(|e| Fail::new("harness-world", e))?;
    let mut after = 0;
    let r = (|| -> Result<(), (String, String)> {
        let c = 0;
        w.connect(c);
        w.settle(100, true);
        let rounds = s.range(1, 3);
        for _ in 0..rounds {
            // optionally some good traffic first
            if s.chance(100) {
                w.send_request(c, &spec_from(&mut s, false, false), &[]);
                w.settle(200, true);
            }
            // malformed chunk, sent alone, settled: the client reads the 400
            let n400_before = audit_client(&w, c)?.n400;
            w.clients[c].dirty = true;
            let kind = s.below(7);
            match kind {
                6 => {
                    // a long header line without a colon (or a bad Content-Length) made of multi-byte
                    // characters, at every alignment: the 400 that echoes it is still a 400
                    let mut g = b"GET / HTTP/1.1\r\n".to_vec();
                    if s.chance(100) {
                        g.extend_from_slice(b"Content-Length: ");
                    }
                    g.extend(std::iter::repeat(b'a').take(s.below(4)));
                    let ch = ["\u{e9}", "\u{4e2d}", "\u{1f600}"][s.below(3)];
                    let n = s.range(60, 900) / ch.len();
                    for _ in 0..n {
                        g.extend_from_slice(ch.as_bytes());
                    }
                    g.extend_from_slice(b"\r\n\r\n");
                    w.send_raw(c, &g);
                    obs.label("long_multibyte_header_line");
                }
                5 => {
                    // one burst: a malformed request padded to fill exactly one (or two) of the
                    // server's 1024-byte reads, and well-formed requests right behind it. The reads
                    // that hold the malformed part are each answered with a 400 and dropped; the
                    // well-formed requests start a read of their own and are yielded like any other
                    let m = s.range(1, 2);
                    let mut burst = GARBAGE_LINES[s.below(GARBAGE_LINES.len())].to_vec();
                    while burst.len() + 14 <= 1024 * m {
                        // lines that are not request lines either; the last one fills up exactly
                        let room = 1024 * m - burst.len();
                        let mut len = s.range(14, 60).min(room);
                        if room - len < 14 {
                            len = room;
                        }
                        // never leave a block boundary in the middle of a line
                        let to_block_end = 1024 - burst.len() % 1024;
                        if len > to_block_end || (to_block_end - len > 0 && to_block_end - len < 14) {
                            len = to_block_end;
                        }
                        let mut l = b"X-Fill: ".to_vec();
                        l.resize(len - 2, b'z');
                        l.extend_from_slice(b"\r\n");
                        burst.extend_from_slice(&l);
                    }
                    if burst.len() != 1024 * m {
                        return Err(("harness-burst".into(), format!("padding produced {} bytes", burst.len())));
                    }
                    let k = s.range(1, 4);
                    let mut js = Vec::new();
                    for _ in 0..k {
                        let mut spec = spec_from(&mut s, false, false);
                        spec.body = spec.body.min(60);
                        let b = w.compose(c, &spec);
                        js.push(w.clients[c].composed.len() - 1);
                        burst.extend_from_slice(&b);
                    }
                    let y0 = w.clients[c].yielded.len();
                    w.send_raw(c, &burst);
                    w.settle(300, true);
                    let a = audit_client(&w, c)?;
                    // (how many 400s a long malformed burst earns is not promised; at least one is
                    // what "answered with 400" presupposes)
                    if a.n400 < n400_before + 1 {
                        return Err(("no-400".into(), format!("{} bytes of malformed input were not answered with a 400", 1024 * m)));
                    }
                    if w.clients[c].yielded[y0..] != js[..] {
                        return Err((
                            "later-request-fails".into(),
                            format!("well-formed requests {:?} queued behind {} bytes of malformed input (one burst) produced yields {:?}", js, 1024 * m, &w.clients[c].yielded[y0..]),
                        ));
                    }
                    while let Some(kk) = w.outstanding.iter().position(|o| o.c == c) {
                        w.respond(kk, 200, s.range(0, 100));
                    }
                    w.settle(200, true);
                    let a2 = audit_client(&w, c)?;
                    if a2.n400 != a.n400 {
                        return Err(("later-request-fails".into(), "a well-formed request behind the malformed burst was answered with a 400".into()));
                    }
                    obs.label("well_formed_requests_queued_behind_malformed_burst");
                    after += 1;
                    continue;
                }
                4 => {
                    // an over-long header line full of non-UTF-8 bytes
                    let mut g = b"GET / HTTP/1.1\r\nX".to_vec();
                    g.extend(std::iter::repeat(0xffu8).take(s.range(1030, 1200)));
                    // terminated, so that what follows the over-long line is rejected as lines of
                    // its own and nothing partial stays buffered
                    g.extend_from_slice(b"\r\n\r\n");
                    w.send_raw(c, &g);
                    obs.label("over_long_binary_header_line");
                }
                0 => w.send_raw(c, GARBAGE[s.below(GARBAGE.len())]),
                1 => {
                    // a tagged request that is rejected in its headers: it must never be yielded
                    let j = w.clients[c].composed.len();
                    let bad = format!("PUT /c{}/r{} HTTP/1.1\r\nContent-Length: 3\r\nbroken header\r\n", c, j);
                    w.clients[c].composed.push(Composed { j, bytes: bad.clone().into_bytes(), rref: None, qualifies_100: false, over_limit: false });
                    w.send_raw(c, bad.as_bytes());
                    obs.label("rejected_tagged_request");
                }
                2 => {
                    let j = w.clients[c].composed.len();
                    let mut bad = format!("GET /c{}/r{} HTTP/1.1\r\nX: ", c, j).into_bytes();
                    bad.extend_from_slice(b"\xff\r\n");
                    w.clients[c].composed.push(Composed {
                        j,
                        bytes: bad.clone(),
                        rref: None,
                        qualifies_100: false,
                        over_limit: false,
                    });
                    w.send_raw(c, &bad);
                    obs.label("rejected_tagged_request");
                }
                _ => {
                    // partial line buffered when the error fires
                    w.send_raw(c, b"GET ");
                    w.settle(100, true);
                    w.send_raw(c, b"xx\r\n");
                    obs.label("error_with_partial_line_buffered");
                }
            }
            // now and then the application flushes right after the poll that queued the 400 (an older
            // request of this client may still be unanswered)
            if s.chance(70) && !w.sndbuf_shrunk {
                if w.epoll_ready() {
                    w.poll();
                }
                w.flush();
                obs.label("flush_after_the_400_was_queued");
                if !w.outstanding.is_empty() {
                    obs.label("flush_with_an_older_request_in_flight");
                }
            }
            w.settle(200, true);
            let a = audit_client(&w, c)?;
            if a.n400 <= n400_before {
                return Err(("no-400".into(), "malformed input was not answered with a 400".into()));
            }
            let rejected: Vec<usize> = w.clients[c].composed.iter().filter(|r| r.rref.is_none()).map(|r| r.j).collect();
            // now well-formed requests: each yielded once and answered
            let k = s.range(1, 3);
            for _ in 0..k {
                let y0 = w.clients[c].yielded.len();
                let spec = spec_from(&mut s, false, false);
                let ncuts = s.below(3);
                let cuts: Vec<usize> = (0..ncuts).map(|_| s.u16() as usize).collect();
                w.send_request(c, &spec, &cuts);
                let j = w.clients[c].composed.len() - 1;
                w.settle(300, true);
                let ys = &w.clients[c].yielded[y0..];
                if ys != [j] {
                    let a = audit_client(&w, c)?;
                    return Err((
                        "later-request-fails".into(),
                        format!("after a 400, the well-formed request r{} produced yields {:?} (expected exactly [{}]); 400s so far {}", j, ys, j, a.n400),
                    ));
                }
                for rj in &rejected {
                    if w.clients[c].yielded.contains(rj) {
                        return Err(("rejected-yielded".into(), format!("request r{} was answered with 400 and later yielded to the application", rj)));
                    }
                }
                let got_before = audit_client(&w, c)?.app_received;
                let mut answered = false;
                if let Some(kk) = w.outstanding.iter().position(|o| o.c == c && o.j == j) {
                    answered = w.respond(kk, 200, s.range(0, 100));
                }
                w.settle(200, true);
                let a2 = audit_client(&w, c)?;
                if a2.n400 != a.n400 {
                    return Err(("later-request-fails".into(), format!("the well-formed request r{} was answered with a 400", j)));
                }
                // the application's answer to it arrives, whatever else of this client is still unanswered
                if answered && a2.app_received != got_before + 1 {
                    return Err(("later-response-lost".into(), format!("the application answered r{} (sent after a rejected request); the client received {} application responses where {} were expected", j, a2.app_received, got_before + 1)));
                }
                after += 1;
            }
        }
        if let Some(PollRes::Err(e)) = w.poll_results.iter().find(|r| matches!(r, PollRes::Err(_))) {
            return Err((format!("requests-err:{}", e), format!("requests() returned Err({})", e)));
        }
        Ok(())
    })();
    obs.nontrivial = after > 0;
    obs.case_hash = Some(fnv64(input.bytes()));
    if obs.want_render {
        obs.render = w.render();
    }
    match r {
        Ok(()) => Ok(()),
        Err((sig, msg)) => Err(wfail("C11", &sig, msg, &w)),
    }
}

pub fn c11_server_sub() -> (&'static str, SubFn) {
    ("server", c11_server)
}

fn c13_server(input: &Input, obs: &mut Obs) -> Result<(), Fail> {
    // construction variant fixed for this sub (replays must not depend on earlier cases)
    SERVER_FROM_FD.with(|c| c.set(false));
    KILL_AFTER_START.with(|c| c.set(false));
    let mut s = Src::new(input.bytes());
    let mut w = World::new(2, false, obs.want_render).map_err(|e| Fail::new("harness-world", e))?;
    let mut done = 0;
    let r = (|| -> Result<(), (String, String)> {
        let c = 0;
        // the limit in force when the client connects decides which requests qualify
        let lim = [crate::DEFAULT_LIMIT, crate::DEFAULT_LIMIT, 5, 100, 1024, 0, 1][s.weighted(&[4, 4, 3, 3, 3, 2, 1])];
        if lim != crate::DEFAULT_LIMIT {
            w.set_limit(lim);
            obs.label("non_default_limit");
        }
        // now and then an earlier client on the same descriptor number left while the server was
        // about to write its interim response
        if s.chance(60) && lim >= 8 {
            let e = 1usize;
            w.connect(e);
            w.settle(100, true);
            let spec = ReqSpec { method: 1, version: 1, body: 5, expect: true, extra_headers: 0, body_kind: 0 };
            let bytes = w.compose(e, &spec);
            w.clients[e].dirty = true;
            w.send_raw(e, &bytes[..bytes.len() - 5]);
            if w.epoll_ready() {
                w.poll();
            }
            w.close_client(e);
            w.settle(100, true);
            obs.label("earlier_client_left_before_its_interim_response");
        }
        w.connect(c);
        w.settle(100, true);
        let rounds = s.range(1, 4);
        for _ in 0..rounds {
            let expect = s.chance(200);
            let n = if s.chance(40) { 0 } else if lim < 2000 && s.chance(128) { [lim.saturating_sub(1), lim, lim + 1][s.below(3)].max(1) } else { s.range(1, 3000) };
            if n > lim {
                // over the limit: a 400 and no interim response; the headers alone decide
                let spec = ReqSpec { method: 1, version: 1, body: n, expect, extra_headers: 0, body_kind: 0 };
                let probe = w.compose(c, &spec);
                let j = w.clients[c].composed.len() - 1;
                let before = audit_client(&w, c)?;
                w.clients[c].dirty = true;
                w.send_raw(c, &probe[..probe.len() - n]);
                w.settle(200, true);
                let a = audit_client(&w, c)?;
                if a.n100 != before.n100 {
                    return Err(("interim".into(), format!("r{} declares {} bytes over the limit {} (Expect: {}): an interim response was sent", j, n, lim, expect)));
                }
                if a.n400 != before.n400 + 1 {
                    return Err(("no-400".into(), format!("r{} declares {} bytes over the limit {}: {} new 400 responses", j, n, lim, a.n400 - before.n400)));
                }
                obs.label("expect_over_limit_400_no_100");
                continue;
            }
            let spec = ReqSpec { method: if n == 0 { s.below(3) as u8 } else { 1 + s.below(2) as u8 }, version: s.below(2) as u8, body: n, expect, extra_headers: s.below(3), body_kind: s.below(3) };
            let probe = w.compose(c, &spec);
            w.clients[c].composed.pop();
            let hdr = probe.len() - n;
            let before = audit_client(&w, c)?.n100;
            let pipelined_front = s.chance(100);
            let staged: Vec<Vec<u8>>;
            let j;
            if pipelined_front {
                // a complete request and the header block of the next one in ONE send; the first
                // stays unanswered while the client waits for the interim response
                let front = ReqSpec { method: 0, version: 1, body: 0, expect: false, extra_headers: s.below(2), body_kind: 0 };
                let mut bytes = w.compose(c, &front);
                let b2 = w.compose(c, &spec);
                j = w.clients[c].composed.len() - 1;
                // (the tag in the URI may have one digit more than in the probe)
                let hdr = b2.len() - n;
                bytes.extend_from_slice(&b2[..hdr]);
                staged = if n > 0 { vec![b2[hdr..].to_vec()] } else { vec![] };
                w.send_raw(c, &bytes);
                obs.label("complete_request_and_expect_headers_in_one_send");
                if s.chance(128) {
                    // the application answers the first request right after the poll that yielded
                    // it, i.e. before the server had a chance to write the interim response
                    let mut g = 0;
                    while !w.outstanding.iter().any(|o| o.c == c) && w.epoll_ready() && g < 4 {
                        w.poll();
                        g += 1;
                    }
                    if let Some(kk) = w.outstanding.iter().position(|o| o.c == c) {
                        w.respond(kk, 200, s.range(0, 50));
                        obs.label("front_request_answered_before_the_interim_response_is_written");
                    }
                }
            } else {
                // header block only
                w.send_request(c, &spec, &[hdr]);
                j = w.clients[c].composed.len() - 1;
                // the body piece stays staged while we settle by hand (settle would push it)
                staged = w.clients[c].staged.drain(..).collect();
            }
            w.settle(200, true);
            let a = audit_client(&w, c)?;
            let want = if expect && n > 0 { 1 } else { 0 };
            if a.n100 - before != want {
                return Err(("interim".into(), format!("client sent the header block of r{} (Expect: {}, Content-Length: {}) and withheld the body: {} interim response(s) received, expected {}", j, expect, n, a.n100 - before, want)));
            }
            if n > 0 && w.clients[c].yielded.contains(&j) {
                return Err(("yielded-without-body".into(), format!("r{} was yielded before its body was sent", j)));
            }
            let mut extra100 = 0;
            if !staged.is_empty() && lim >= 2 && s.chance(70) {
                // the body of this request and the header block of a further Expect request in ONE send:
                // the second interim response is due although the first request is still unanswered
                let spec2 = ReqSpec { method: 1, version: s.below(2) as u8, body: 2, expect: true, extra_headers: 0, body_kind: 0 };
                let b2 = w.compose(c, &spec2);
                let j2 = w.clients[c].composed.len() - 1;
                let hdr2 = b2.len() - 2;
                let mut bytes: Vec<u8> = staged.concat();
                bytes.extend_from_slice(&b2[..hdr2]);
                w.send_raw(c, &bytes);
                w.settle(300, true);
                let a = audit_client(&w, c)?;
                if a.n100 - before != want + 1 {
                    return Err(("interim".into(), format!("body of r{} and header block of r{} (Expect, 2 bytes) in one send, r{} unanswered: {} interim responses so far, expected {}", j, j2, j, a.n100 - before, want + 1)));
                }
                w.send_raw(c, &b2[hdr2..]);
                w.settle(300, true);
                if !w.clients[c].yielded.contains(&j2) {
                    return Err(("not-yielded".into(), format!("r{} was not yielded after its body arrived", j2)));
                }
                extra100 = 1;
                obs.label("body_and_next_expect_headers_in_one_send");
            } else {
                for p in staged {
                    w.send_raw(c, &p);
                }
                w.settle(300, true);
            }
            let want = want + extra100;
            if !w.clients[c].yielded.contains(&j) {
                return Err(("not-yielded".into(), format!("r{} was not yielded after its body arrived", j)));
            }
            while !w.outstanding.is_empty() {
                w.respond(0, 200, s.range(0, 200));
            }
            w.settle(200, true);
            let a2 = audit_client(&w, c)?;
            if a2.n100 - before != want {
                return Err(("interim".into(), format!("r{}: {} interim responses in total, expected {}", j, a2.n100 - before, want)));
            }
            if !a2.complete_in_order {
                return Err(("final-response".into(), format!("the final response to r{} was not delivered", j)));
            }
            if want == 1 {
                done += 1;
            }
        }
        if let Some(PollRes::Err(e)) = w.poll_results.iter().find(|r| matches!(r, PollRes::Err(_))) {
            return Err((format!("requests-err:{}", e), format!("requests() returned Err({})", e)));
        }
        if let Some(f) = w.yield_faults.first() {
            return Err(("yield".into(), f.clone()));
        }
        Ok(())
    })();
    obs.nontrivial = done > 0;
    obs.case_hash = Some(fnv64(input.bytes()));
    if obs.want_render {
        obs.render = w.render();
    }
    match r {
        Ok(()) => Ok(()),
        Err((sig, msg)) => Err(wfail("C13", &sig, msg, &w)),
    }
}

pub fn c13_server_sub() -> (&'static str, SubFn) {
    ("server", c13_server)
}
