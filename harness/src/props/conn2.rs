//! C03 (no panic / no hang / at most one stream call), C06 (output queue under short and
//! failing writes), C11 (clean restart after a parse error), C12 (passed descriptors).

use std::io::Read as _;
use std::os::unix::io::{AsRawFd, RawFd};
use std::panic::{catch_unwind, AssertUnwindSafe};

use micro_http::{Body, Encoding, Headers, HttpConnection, MediaType, Method, Request, Response, StatusCode, Version};

use crate::connrun::*;
use crate::engine::*;
use crate::gen::*;
use crate::props::conn::{eff, pick_limit, small_family};
use crate::props::pure::c05_call;
use crate::refparse::*;
use crate::respread::*;
use crate::src::{esc, filler, fnv64, Src};
use crate::stream::*;
use crate::buf_size;

// =======================================================================================
// C03

fn mutate(s: &mut Src, v: &mut Vec<u8>) {
    let n = s.below(6);
    for _ in 0..n {
        if v.is_empty() {
            v.push(s.u8());
            continue;
        }
        let pos = s.below(v.len());
        match s.below(7) {
            0 => v[pos] ^= 1 << s.below(8),
            1 => v[pos] = [0u8, b'\r', b'\n', 0x80, 0xff, b' ', b':'][s.below(7)],
            2 => {
                v.remove(pos);
            }
            3 => v.insert(pos, [0u8, b'\r', b'\n', 0x80, 0xff, b' ', b':'][s.below(7)]),
            4 => {
                // splice: copy a chunk elsewhere
                let len = s.range(1, 40).min(v.len() - pos);
                let chunk = v[pos..pos + len].to_vec();
                let at = s.below(v.len() + 1);
                for (i, c) in chunk.into_iter().enumerate() {
                    v.insert(at + i, c);
                }
            }
            5 => v.truncate(pos),
            _ => {
                let k = s.range(1, 64);
                let f = filler(1, s.u8(), k);
                for (i, c) in f.into_iter().enumerate() {
                    v.insert(pos + i, c);
                }
            }
        }
    }
}

fn c03_bytes(s: &mut Src) -> Vec<u8> {
    match s.weighted(&[10, 10, 4, 2]) {
        0 => {
            // grammar-derived, then mutated
            let mut cfg = GenCfg::new(buf_size(), crate::DEFAULT_LIMIT);
            cfg.corrupt = 24;
            cfg.max_body = 4000;
            let (mut v, _) = gen_stream(s, &cfg);
            mutate(s, &mut v);
            v
        }
        1 => {
            // raw
            let n = s.below(200);
            s.bytes(n)
        }
        2 => {
            // header-ish text
            let mut labels = vec![];
            let mut v = Vec::new();
            for _ in 0..s.below(6) {
                let ni = s.below(8);
                v.extend(style_name(s, ["Content-Length", "Expect", "Accept-Encoding", "X", "Transfer-Encoding", "Accept", "Content-Type", "Server"][ni]).into_bytes());
                v.push(b':');
                let vi = s.below(12);
                let mut val = ["5", "100-continue", "*;q=0", "identity;q=0", "", "\u{a0}", "gzip, br", "chunked", "a, b, ", "text/plain, */*", ",", "application/json"][vi].to_string();
                if s.chance(60) {
                    val = crate::gen::hazard_value(s, &val);
                }
                v.extend(style_value(s, &val).into_bytes());
                v.extend_from_slice(b"\r\n");
                labels.push(());
            }
            mutate(s, &mut v);
            v
        }
        _ => {
            // large: up to ~60 KiB
            let mut v = b"PUT /x HTTP/1.1\r\nContent-Length: 61000\r\n\r\n".to_vec();
            let k = s.range(1000, 61000);
            v.extend(filler(s.below(5), s.u8(), k));
            mutate(s, &mut v);
            v
        }
    }
}

fn guard<T>(what: &str, input: &[u8], f: impl FnOnce() -> T) -> Result<T, Fail> {
    match catch_unwind(AssertUnwindSafe(f)) {
        Ok(v) => Ok(v),
        Err(p) => Err(Fail::new(&format!("C03:panic:{}", what), format!("{} panicked on \"{}\": {}", what, esc(input), panic_msg(p)))),
    }
}

pub fn c03_entry_points(b: &[u8], obs: &mut Obs) -> Result<(), Fail> {
    let r = guard("Request::try_from(None)", b, || Request::try_from(b, None))?;
    if let Ok(req) = &r {
        obs.label("oneshot_accepted");
        guard("Uri::get_abs_path", b, || req.uri().get_abs_path().len())?;
        if req.headers.content_length() > 0 || !req.headers.custom_entries().is_empty() {
            obs.nontrivial = true;
        }
    }
    for m in [0usize, 1, 14, b.len(), b.len() + 1, usize::MAX] {
        guard("Request::try_from(Some)", b, || Request::try_from(b, Some(m)).is_ok())?;
    }
    let h = guard("Headers::try_from", b, || Headers::try_from(b))?;
    if h.is_ok() && b.contains(&b':') {
        obs.label("header_block_accepted");
        obs.nontrivial = true;
    }
    guard("Headers::parse_header_line(default)", b, || Headers::default().parse_header_line(b).is_ok())?;
    guard("Headers::parse_header_line(prefilled)", b, || {
        let mut h = Headers::default();
        let _ = h.parse_header_line(b"Content-Length: 12");
        let _ = h.parse_header_line(b"X-A: b");
        let _ = h.parse_header_line(b"Expect: 100-continue");
        h.parse_header_line(b).is_ok()
    })?;
    // each line of the input as a header line
    for line in b.split(|c| *c == b'\n').take(32) {
        guard("Headers::parse_header_line(line)", line, || Headers::default().parse_header_line(line).is_ok())?;
    }
    guard("MediaType::try_from", b, || MediaType::try_from(b).is_ok())?;
    guard("Encoding::try_from", b, || Encoding::try_from(b).is_ok())?;
    guard("Method::try_from", b, || Method::try_from(b).is_ok())?;
    guard("Version::try_from", b, || Version::try_from(b).is_ok())?;
    Ok(())
}

fn c03_entry(input: &Input, obs: &mut Obs) -> Result<(), Fail> {
    let mut s = Src::new(input.bytes());
    let b = c03_bytes(&mut s);
    c03_entry_points(&b, obs)?;
    if b.len() > 50_000 {
        obs.label("input_50KiB+");
    }
    obs.case_hash = Some(fnv64(&b));
    if obs.want_render {
        obs.render = format!("bytes[{}]=\"{}\"", b.len(), esc(&b));
    }
    Ok(())
}

/// connection under an arbitrary call sequence, continuing after every kind of error
pub fn c03_conn_run(s: &mut Src, stream: Vec<u8>, limit: Option<usize>, obs: &mut Obs) -> Result<String, Fail> {
    let mut pipes: Vec<Pipe> = Vec::new();
    let mut handed: Vec<RawFd> = Vec::new();
    let r = c03_conn_run_inner(s, stream, limit, obs, &mut pipes, &mut handed);
    // the connection is gone by now: close what the harness still owns
    for p in &pipes {
        if !handed.contains(&p.rd) {
            unsafe { libc::close(p.rd) };
        }
        unsafe { libc::close(p.wr) };
    }
    r
}

fn c03_conn_run_inner(s: &mut Src, stream: Vec<u8>, limit: Option<usize>, obs: &mut Obs, pipes: &mut Vec<Pipe>, handed: &mut Vec<RawFd>) -> Result<String, Fail> {
    let total = stream.len();
    let (st, ss) = ScriptedStream::new(stream);
    // whatever happens below, report which descriptors the connection took over
    struct Report<'a>(std::rc::Rc<std::cell::RefCell<Script>>, &'a mut Vec<RawFd>);
    impl<'a> Drop for Report<'a> {
        fn drop(&mut self) {
            *self.1 = self.0.borrow().handed_fds.clone();
        }
    }
    let _report = Report(ss.clone(), handed);
    let mut conn = HttpConnection::new(st);
    if let Some(l) = limit {
        conn.set_payload_max_size(l);
    }
    let mut trace = String::new();
    let mut after_err = [false; 3];
    let mut errs_seen = 0;
    let mut ops = 0;
    let window = buf_size();
    loop {
        ops += 1;
        let remaining = {
            let x = ss.borrow();
            x.input.len() - x.pos
        };
        if ops > 400 || (remaining == 0 && s.exhausted()) || (remaining == 0 && ops > 60) {
            break;
        }
        let (r0, w0, p0) = {
            let x = ss.borrow();
            (x.recv_calls, x.write_calls, x.plain_read_calls)
        };
        let op = s.weighted(&[40, 6, 3, 3, 3, 1]);
        let (max_recv, max_write);
        match op {
            5 => {
                // the owner reconfigures the payload limit at any time
                let l = [0usize, 1, 8, 100, 1024, 51200, u32::MAX as usize, usize::MAX][s.below(8)];
                guard("HttpConnection::set_payload_max_size", b"", || conn.set_payload_max_size(l))?;
                obs.label("limit_changed_mid_connection");
                max_recv = 0;
                max_write = 0;
            }
            0 => {
                let ev = match s.weighted(&[30, 3, 3, 2, 2]) {
                    0 => {
                        let want = match s.weighted(&[5, 3, 3, 3]) {
                            0 => window,
                            1 => 1,
                            2 => s.range(1, 40),
                            _ => s.range(1, window),
                        };
                        // now and then descriptors ride on the read
                        let mut fds = vec![];
                        if s.chance(12) && pipes.len() < 8 {
                            for _ in 0..s.range(1, 2) {
                                if let Some(p) = mkpipe(7000 + pipes.len() as u32) {
                                    fds.push(p.rd);
                                    pipes.push(p);
                                }
                            }
                            obs.label("descriptors_on_a_read");
                        }
                        ReadEv::Data { want, fds }
                    }
                    1 => ReadEv::Eagain,
                    2 => ReadEv::Eintr,
                    3 => ReadEv::Eof { fds: vec![] },
                    _ => ReadEv::Errno([libc::ECONNRESET, libc::EBADF, libc::ENOMEM, libc::EIO][s.below(4)]),
                };
                ss.borrow_mut().next_read = Some(ev.clone());
                let r = guard("HttpConnection::try_read", trace.as_bytes(), || conn.try_read())?;
                ss.borrow_mut().next_read = None;
                let rr = rres_of(r);
                if errs_seen > 0 {
                    obs.label("call_after_error");
                }
                match &rr {
                    RRes::Parse(_, _) => {
                        errs_seen += 1;
                        after_err[0] = true;
                        obs.label("continued_after_ParseError");
                    }
                    RRes::ReadErr(_) => {
                        errs_seen += 1;
                        after_err[1] = true;
                        obs.label("continued_after_StreamReadError");
                    }
                    RRes::Closed => {
                        errs_seen += 1;
                        after_err[2] = true;
                        obs.label("continued_after_ConnectionClosed");
                    }
                    _ => {}
                }
                if obs.want_render && trace.len() < 3000 {
                    trace.push_str(&format!("read({:?})->{:?}; ", ev, rr));
                }
                max_recv = 1;
                max_write = 0;
            }
            1 => {
                let ev = [WriteEv::All, WriteEv::Accept(s.u16()), WriteEv::Eintr, WriteEv::Eagain, WriteEv::Epipe, WriteEv::Zero, WriteEv::EintrKind][s.weighted(&[5, 5, 2, 2, 2, 2, 1])];
                ss.borrow_mut().next_write = Some(ev);
                let r = guard("HttpConnection::try_write", trace.as_bytes(), || conn.try_write())?;
                ss.borrow_mut().next_write = None;
                if obs.want_render && trace.len() < 3000 {
                    trace.push_str(&format!("write({:?})->{:?}; ", ev, r.is_ok()));
                }
                max_recv = 0;
                max_write = 1;
            }
            2 => {
                let code = [200u16, 100, 204, 400][s.below(4)];
                let calls = if s.chance(128) { vec![c05_call(s, 0)] } else { vec![] };
                let resp = build_real(1, code, &calls);
                guard("HttpConnection::enqueue_response", b"", || conn.enqueue_response(resp))?;
                max_recv = 0;
                max_write = 0;
            }
            3 => {
                guard("HttpConnection::clear_write_buffer", b"", || conn.clear_write_buffer())?;
                max_recv = 0;
                max_write = 0;
            }
            _ => {
                let got = guard("HttpConnection::pop_parsed_request", b"", || conn.pop_parsed_request())?;
                if let Some(rq) = got {
                    obs.label("request_popped");
                    guard("Uri::get_abs_path", b"", || rq.uri().get_abs_path().len())?;
                    if rq.body.is_some() {
                        obs.label("body_state_reached");
                    }
                }
                guard("HttpConnection::pending_write", b"", || conn.pending_write())?;
                max_recv = 0;
                max_write = 0;
            }
        }
        let x = ss.borrow();
        if x.recv_calls - r0 > max_recv {
            return Err(Fail::new("C03:recv-count", format!("operation {} performed {} receives on the stream (allowed {})", op, x.recv_calls - r0, max_recv)));
        }
        if x.write_calls - w0 > max_write {
            return Err(Fail::new("C03:write-count", format!("operation {} performed {} writes on the stream (allowed {})", op, x.write_calls - w0, max_write)));
        }
        if x.plain_read_calls != p0 {
            return Err(Fail::new("C03:plain-read", "the connection called Read::read on the stream".into()));
        }
    }
    if errs_seen > 0 && after_err.iter().any(|x| *x) {
        obs.nontrivial = true;
    }
    let _ = total;
    Ok(trace)
}

fn c03_conn(input: &Input, obs: &mut Obs) -> Result<(), Fail> {
    let mut s = Src::new(input.bytes());
    let limit = pick_limit(&mut s, true);
    let stream = c03_bytes(&mut s);
    let h = fnv64(&stream);
    let shown = if obs.want_render { esc(&stream) } else { String::new() };
    let n = stream.len();
    let trace = c03_conn_run(&mut s, stream, limit, obs)?;
    obs.case_hash = Some(h ^ fnv64(input.bytes()));
    if obs.want_render {
        obs.render = format!("limit={:?} stream[{}]=\"{}\"\ncalls: {}", limit, n, shown, trace);
    }
    Ok(())
}

/// every way of gluing a request line, a header line and a tail together with runs of CR and LF:
/// params = [template, separator 1]; separators are all strings over {CR, LF} of length 0..4
/// (the second separator runs over all 31 inside the case). Every entry point, and a connection
/// fed the bytes (whole, then byte by byte).
fn c03_glue(input: &Input, obs: &mut Obs) -> Result<(), Fail> {
    let p = input.params();
    let seps: Vec<Vec<u8>> = {
        let mut v: Vec<Vec<u8>> = vec![vec![]];
        let mut layer: Vec<Vec<u8>> = vec![vec![]];
        for _ in 0..4 {
            let mut next = Vec::new();
            for x in &layer {
                for c in [b'\r', b'\n'] {
                    let mut y = x.clone();
                    y.push(c);
                    next.push(y);
                }
            }
            v.extend(next.iter().cloned());
            layer = next;
        }
        v
    };
    const RLS: [&[u8]; 5] = [b"GET / HTTP/1.1", b"PUT /x HTTP/1.0", b"PATCH /a/b HTTP/1.1", b"GET /", b""];
    const HLS: [&[u8]; 5] = [b"Content-Length: 2", b"X-A: b", b"Expect: 100-continue", b":", b""];
    const TAILS: [&[u8]; 3] = [b"", b"ab", b"GET /n HTTP/1.1\r\n\r\n"];
    let t = p[0] as usize;
    let (rl, hl, tail) = (RLS[t % 5], HLS[(t / 5) % 5], TAILS[(t / 25) % 3]);
    let mut cnt = 0u64;
    for s2 in seps.iter() {
        let mut b = rl.to_vec();
        b.extend_from_slice(&seps[p[1] as usize]);
        b.extend_from_slice(hl);
        b.extend_from_slice(s2);
        b.extend_from_slice(tail);
        let mut o = Obs::default();
        c03_entry_points(&b, &mut o)?;
        for whole in [true, false] {
            let mut run = ConnRun::new(b.clone(), None, true);
            let mut guardn = 0;
            while run.remaining() > 0 && guardn < 200 {
                guardn += 1;
                let st = run.read(ReadEv::Data { want: if whole { 1024 } else { 1 }, fds: vec![] }).map_err(|m| Fail::new("C03:stream-misuse", m))?.clone();
                if let RRes::Panic(m) = &st.res {
                    return Err(Fail::new("C03:panic:HttpConnection::try_read", format!("HttpConnection::try_read panicked on \"{}\" ({}): {}", esc(&b), if whole { "whole" } else { "byte by byte" }, m)));
                }
            }
        }
        cnt += 1;
    }
    obs.extra_evals = cnt.saturating_sub(1);
    obs.extra_nontrivial = cnt;
    if obs.want_render {
        obs.render = format!("template {} with separator #{} x all 31 second separators", t, p[1]);
    }
    Ok(())
}

fn c03_glue_enum(_tier: Tier, shard: u64, nshards: u64, f: &mut dyn FnMut(&[u64]) -> bool) {
    let mut c = 0u64;
    for t in 0..75u64 {
        for s1 in 0..31u64 {
            c += 1;
            if c % nshards == shard && !f(&[t, s1]) {
                return;
            }
        }
    }
}

fn c03_plan(tier: Tier) -> Vec<Job> {
    let q = tier == Tier::Quick;
    vec![
        Job { sub: "entry", kind: JobKind::Pbt { cases: if q { 120_000 } else { 3_000_000 }, max_len: 700 }, smallbuf: false },
        Job { sub: "conn", kind: JobKind::Pbt { cases: if q { 120_000 } else { 3_000_000 }, max_len: 1200 }, smallbuf: false },
        Job { sub: "conn", kind: JobKind::Pbt { cases: if q { 60_000 } else { 1_000_000 }, max_len: 900 }, smallbuf: true },
        Job { sub: "glue", kind: JobKind::Enum { f: c03_glue_enum, bound: "5 request lines x 5 header lines x 3 tails, glued with every pair of CR/LF runs of length 0..4 (31 x 31), through every entry point and a connection (whole and byte by byte)" }, smallbuf: false },
    ]
}

pub fn c03() -> PropDef {
    PropDef {
        id: "C03",
        subs: vec![("entry", c03_entry), ("conn", c03_conn), ("raw", crate::props::raw::c03_raw), ("glue", c03_glue)],
        plan: c03_plan,
        rule: "case = byte string (grammar-derived then mutated by bit flips/splices/NUL-CR-LF-0x80-0xFF injection/truncation, raw, header-like, or up to ~60 KiB) given to every public parsing entry point, or a connection driven by a generated call sequence (reads of any size, EAGAIN/EINTR/ECONNRESET/EOF, try_write under every stream behaviour, enqueue, clear, pop) that continues after every error; oracle = catch_unwind around every call (overflow checks and debug assertions on) + stream call counters (<=1 receive per try_read, <=1 write per try_write, 0 otherwise) + watchdog for non-termination; non-trivial = the input gets past the request line / header block accepted, or the sequence continues after >=1 error",
        assumptions: vec!["a hang is reported only after the case failed to finish within 30 s in the worker and again within 60 s alone in a fresh process"],
        single_threaded_world: false,
    }
}

// =======================================================================================
// C06

#[derive(Clone, Debug)]
enum WOp {
    Enq(u8, u16, Vec<Call>),
    Write(WriteEv),
    /// a receive of up to this many bytes of the input stream (interim responses may be queued by it)
    Read(usize),
    /// the owner discards all pending output (public `clear_write_buffer`)
    Clear,
    /// a receive that reports end of stream (the peer half-closed); output is not affected by it
    Eof,
}

fn c06_run(ops: &[WOp], obs: &mut Obs) -> Result<(), Fail> {
    c06_run_with_input(ops, &[], obs)
}

/// `input` is a request stream; `Read` operations feed it to the connection, which queues a
/// 100 Continue of its own for every qualifying request (known from REF) — those count as
/// enqueued at that moment.
fn c06_run_with_input(ops: &[WOp], input: &[u8], obs: &mut Obs) -> Result<(), Fail> {
    let (st, ss) = ScriptedStream::new(input.to_vec());
    let mut conn = HttpConnection::new(st);
    let (ref_reqs, _) = ref_parse(input, buf_size(), crate::DEFAULT_LIMIT);
    let mut interim_done = 0usize; // qualifying requests whose 100 has been accounted for
    let mut reading_stopped = false;
    let mut expected: Vec<u8> = Vec::new(); // bytes of the current epoch
    let mut epoch_start = 0usize; // offset into ss.out
    let mut pending_resps = 0usize;
    let mut had_short = false;
    let mut resp_bounds: Vec<usize> = Vec::new(); // end offsets (within epoch) of each enqueued response
    for (i, op) in ops.iter().enumerate() {
        match op {
            WOp::Enq(v, code, calls) => {
                let accepted = ss.borrow().out.len() - epoch_start;
                if accepted > 0 && accepted < expected.len() && !resp_bounds.contains(&accepted) {
                    obs.label("enqueue_during_partial");
                    obs.nontrivial = true;
                }
                let real = build_real(*v, *code, calls);
                expected.extend_from_slice(&build_model(*v, *code, calls).bytes());
                resp_bounds.push(expected.len());
                conn.enqueue_response(real);
                pending_resps += 1;
            }
            WOp::Clear => {
                let r = catch_unwind(AssertUnwindSafe(|| conn.clear_write_buffer()));
                if let Err(p) = r {
                    return Err(Fail::new("C06:panic", format!("clear_write_buffer panicked at op {}: {}", i, panic_msg(p))));
                }
                if conn.pending_write() {
                    return Err(Fail::new("C06:failure-pending", format!("op {}: pending output survives clear_write_buffer", i)));
                }
                let accepted = ss.borrow().out.len() - epoch_start;
                if accepted < expected.len() {
                    obs.label("owner_cleared_pending_output");
                    obs.nontrivial = true;
                }
                // new epoch: nothing of the discarded output may ever appear
                epoch_start = ss.borrow().out.len();
                expected.clear();
                resp_bounds.clear();
                pending_resps = 0;
                continue;
            }
            WOp::Eof => {
                if reading_stopped {
                    continue;
                }
                ss.borrow_mut().next_read = Some(ReadEv::Eof { fds: vec![] });
                let r = catch_unwind(AssertUnwindSafe(|| conn.try_read()));
                ss.borrow_mut().next_read = None;
                if let Err(p) = r {
                    return Err(Fail::new("C06:panic", format!("try_read panicked at op {}: {}", i, panic_msg(p))));
                }
                reading_stopped = true;
                obs.label("end_of_input_with_output_pending");
                // falls through to the invariants: nothing about the output may have changed
            }
            WOp::Read(want) => {
                if reading_stopped || ss.borrow().pos >= ss.borrow().input.len() {
                    continue;
                }
                ss.borrow_mut().next_read = Some(ReadEv::Data { want: *want, fds: vec![] });
                let r = catch_unwind(AssertUnwindSafe(|| conn.try_read()));
                ss.borrow_mut().next_read = None;
                match r {
                    Err(p) => return Err(Fail::new("C06:panic", format!("try_read panicked at op {}: {}", i, panic_msg(p)))),
                    Ok(Err(_)) => reading_stopped = true,
                    Ok(Ok(())) => {}
                }
                while conn.pop_parsed_request().is_some() {}
                let consumed = ss.borrow().pos;
                // interim responses queued by this read, in stream order
                let due: Vec<u8> = ref_reqs.iter().filter(|r| r.wants_continue && r.headers_done_at <= consumed).map(|r| r.version).collect();
                for v in due.iter().skip(interim_done) {
                    expected.extend_from_slice(&build_model(*v, 100, &[]).bytes());
                    resp_bounds.push(expected.len());
                    pending_resps += 1;
                    obs.label("interim_response_between_application_responses");
                }
                interim_done = interim_done.max(due.len());
            }
            WOp::Write(ev) => {
                let accepted_before = ss.borrow().out.len() - epoch_start;
                let model_pending = accepted_before < expected.len();
                let calls0 = ss.borrow().write_calls;
                ss.borrow_mut().next_write = Some(*ev);
                let r = catch_unwind(AssertUnwindSafe(|| conn.try_write()));
                ss.borrow_mut().next_write = None;
                let r = match r {
                    Ok(r) => r,
                    Err(p) => return Err(Fail::new("C06:panic", format!("try_write panicked at op {}: {}", i, panic_msg(p)))),
                };
                let ncalls = ss.borrow().write_calls - calls0;
                if !model_pending {
                    if !matches!(r, Err(micro_http::ConnectionError::InvalidWrite)) {
                        return Err(Fail::new("C06:invalid-write", format!("op {}: try_write with nothing pending returned {:?}", i, r)));
                    }
                    if ncalls != 0 {
                        return Err(Fail::new("C06:invalid-write", format!("op {}: try_write with nothing pending touched the stream {} time(s)", i, ncalls)));
                    }
                    continue;
                }
                if ncalls != 1 {
                    return Err(Fail::new("C06:write-count", format!("op {}: try_write performed {} writes", i, ncalls)));
                }
                let accepted_after = ss.borrow().out.len() - epoch_start;
                match ev {
                    WriteEv::Accept(_) | WriteEv::All | WriteEv::Eintr | WriteEv::EintrKind => {
                        if r.is_err() {
                            return Err(Fail::new("C06:write-result", format!("op {}: stream behaviour {:?} made try_write fail with {:?}", i, ev, r)));
                        }
                        if *ev == WriteEv::Eintr || *ev == WriteEv::EintrKind {
                            obs.label("eintr_mid_stream");
                            if accepted_after != accepted_before {
                                return Err(Fail::new("C06:harness", "interrupted write accepted bytes".into()));
                            }
                        } else if accepted_after < expected.len() {
                            // a short write followed (necessarily) by later writes
                            let offered = *ss.borrow().write_offers.last().unwrap_or(&0);
                            if accepted_after - accepted_before < offered {
                                had_short = true;
                                obs.label("short_write");
                                if accepted_after - accepted_before == 1 {
                                    obs.label("k=1");
                                }
                                if accepted_after - accepted_before == offered - 1 {
                                    obs.label("k=len-1");
                                }
                            }
                        }
                    }
                    WriteEv::Eagain | WriteEv::Epipe | WriteEv::Zero => {
                        if !matches!(r, Err(micro_http::ConnectionError::ConnectionClosed)) {
                            return Err(Fail::new("C06:failure-result", format!("op {}: stream behaviour {:?} gave {:?}, expected ConnectionClosed", i, ev, r)));
                        }
                        if conn.pending_write() {
                            return Err(Fail::new("C06:failure-pending", format!("op {}: pending output survives a failed write", i)));
                        }
                        if pending_resps >= 2 || accepted_before > 0 {
                            obs.label("failure_with_output_pending");
                            obs.nontrivial = true;
                        }
                        // new epoch: nothing of the discarded output may ever appear
                        epoch_start = ss.borrow().out.len();
                        expected.clear();
                        resp_bounds.clear();
                        pending_resps = 0;
                        obs.label("reuse_after_failure");
                        continue;
                    }
                }
            }
        }
        // invariants after every op
        let x = ss.borrow();
        let accepted = &x.out[epoch_start..];
        if accepted.len() > expected.len() || accepted != &expected[..accepted.len()] {
            let at = accepted.iter().zip(expected.iter()).position(|(a, b)| a != b).unwrap_or(accepted.len().min(expected.len()));
            return Err(Fail::new(
                "C06:prefix",
                format!("after op {}: bytes accepted by the stream are not a prefix of the serialized queue (first difference at offset {} of {} accepted / {} expected)", i, at, accepted.len(), expected.len()),
            ));
        }
        let want_pending = accepted.len() < expected.len();
        drop(x);
        if conn.pending_write() != want_pending {
            return Err(Fail::new("C06:pending", format!("after op {}: pending_write() = {} but {} of {} bytes are out", i, conn.pending_write(), ss.borrow().out.len() - epoch_start, expected.len())));
        }
        if !want_pending {
            pending_resps = 0;
        }
    }
    if had_short {
        obs.nontrivial = true;
    }
    Ok(())
}

fn c06_hist(input: &Input, obs: &mut Obs) -> Result<(), Fail> {
    let mut s = Src::new(input.bytes());
    let nops = s.range(1, 60);
    let mut ops = Vec::new();
    let mut enq = 0;
    for _ in 0..nops {
        if enq < 6 && s.chance(70) {
            enq += 1;
            let v = s.below(2) as u8;
            let code = [200u16, 100, 204, 400, 503][s.below(5)];
            let mut calls = Vec::new();
            for _ in 0..s.below(4) {
                let k = s.weighted(&[8, 2, 1, 1, 2, 1, 1]);
                let mut c = c05_call(&mut s, k);
                if let Call::SetBody(b) = &mut c {
                    b.truncate(8192);
                    if s.chance(6) {
                        // now and then a response larger than anything a single write usually takes
                        *b = filler(0, s.u8(), s.range(60_000, 140_000));
                    }
                }
                calls.push(c);
                if s.chance(14) {
                    // the announced length need not be the body's: removed, lowered, raised
                    calls.push(Call::SetContentLength(match s.below(5) { 0 => None, 1 => Some(0), 2 => Some(3), 3 => Some(-1), _ => Some(100_000) }));
                    obs.label("content_length_set_independently_of_the_body");
                }
            }
            ops.push(WOp::Enq(v, code, calls));
        } else if s.chance(8) {
            ops.push(WOp::Clear);
        } else {
            let ev = match s.weighted(&[12, 6, 3, 2, 2, 2]) {
                0 => {
                    let raw = match s.below(4) {
                        0 => 0,
                        1 => 65535,
                        2 => 65000,
                        _ => s.u16(),
                    };
                    WriteEv::Accept(raw)
                }
                1 => WriteEv::All,
                2 => if s.chance(90) { WriteEv::EintrKind } else { WriteEv::Eintr },
                3 => WriteEv::Eagain,
                4 => WriteEv::Epipe,
                _ => WriteEv::Zero,
            };
            ops.push(WOp::Write(ev));
        }
    }
    c06_run(&ops, obs)?;
    if obs.want_render {
        obs.render = format!(
            "ops={:?}",
            ops.iter()
                .map(|o| match o {
                    WOp::Enq(v, c, calls) => format!("enqueue(v{} {} {} calls, {} bytes)", v, c, calls.len(), build_model(*v, *c, calls).bytes().len()),
                    WOp::Write(e) => format!("try_write[{:?}]", e),
                    WOp::Read(n) => format!("try_read[{}]", n),
                    WOp::Clear => "clear_write_buffer".to_string(),
                    WOp::Eof => "try_read[EOF]".to_string(),
                })
                .collect::<Vec<_>>()
        );
    }
    Ok(())
}

/// application responses interleaved with the connection's own interim responses
fn c06_mixed(input: &Input, obs: &mut Obs) -> Result<(), Fail> {
    let mut s = Src::new(input.bytes());
    let nreq = s.range(1, 4);
    let mut stream = Vec::new();
    for k in 0..nreq {
        let n = s.range(1, 30);
        let expect = s.chance(190);
        let extra = ["", "", "Connection: close\r\n", "connection: Close\r\n", "Connection: keep-alive\r\n", "Upgrade: h2c\r\n"][s.below(6)];
        stream.extend_from_slice(format!("PUT /{} HTTP/1.{}\r\n{}{}Content-Length: {}\r\n\r\n", k, s.below(2), extra, if expect { "Expect: 100-continue\r\n" } else { "" }, n).as_bytes());
        stream.extend(filler(0, k as u8, n));
    }
    let nops = s.range(3, 50);
    let mut ops = Vec::new();
    for _ in 0..nops {
        match s.weighted(&[8, 5, 10, 1, 1]) {
            4 => ops.push(WOp::Eof),
            3 => ops.push(WOp::Clear),
            0 => ops.push(WOp::Read([1usize, 7, 40, 200, 1024][s.below(5)])),
            1 => {
                let code = [200u16, 100, 204, 400][s.below(4)];
                let calls = if s.chance(128) { vec![Call::SetBody(filler(0, s.u8(), s.range(0, 300)))] } else { vec![] };
                ops.push(WOp::Enq(s.below(2) as u8, code, calls));
            }
            _ => {
                let ev = match s.weighted(&[12, 6, 3, 1, 1, 1]) {
                    0 => WriteEv::Accept(s.u16()),
                    1 => WriteEv::All,
                    2 => if s.chance(90) { WriteEv::EintrKind } else { WriteEv::Eintr },
                    3 => WriteEv::Eagain,
                    4 => WriteEv::Epipe,
                    _ => WriteEv::Zero,
                };
                ops.push(WOp::Write(ev));
            }
        }
    }
    c06_run_with_input(&ops, &stream, obs)?;
    if obs.labels.contains(&"interim_response_between_application_responses") && obs.labels.contains(&"short_write") {
        obs.nontrivial = true;
    }
    obs.case_hash = Some(fnv64(input.bytes()));
    if obs.want_render {
        obs.render = format!("stream=\"{}\" ops={:?}", esc(&stream), ops.iter().map(|o| match o { WOp::Enq(v, c, calls) => format!("enqueue(v{} {} {}B)", v, c, build_model(*v, *c, calls).bytes().len()), WOp::Write(e) => format!("try_write[{:?}]", e), WOp::Read(n) => format!("try_read[{}]", n), WOp::Clear => "clear_write_buffer".to_string(), WOp::Eof => "try_read[EOF]".to_string() }).collect::<Vec<_>>());
    }
    Ok(())
}

/// E2: two small responses; params = [k1, k2, fault position, fault kind]: the first write
/// accepts k1 bytes, the second k2, all others everything; one fault before write #pos.
fn c06_pairs(input: &Input, obs: &mut Obs) -> Result<(), Fail> {
    let p = input.params();
    let r1 = (1u8, 200u16, vec![Call::SetBody(b"first".to_vec())]);
    let r2 = (0u8, 204u16, vec![]);
    let l1 = build_model(r1.0, r1.1, &r1.2).bytes().len();
    let mut ops = vec![WOp::Enq(r1.0, r1.1, r1.2.clone()), WOp::Enq(r2.0, r2.1, r2.2.clone())];
    let exact = |k: u64, len: usize| -> WriteEv {
        // raw such that 1 + (raw*len >> 16) == k
        let raw = (((k - 1) << 16) + len as u64 - 1) / len as u64;
        WriteEv::Accept(raw.min(65535) as u16)
    };
    let fault = match p[3] {
        0 => None,
        1 => Some(WriteEv::Eintr),
        2 => Some(WriteEv::Eagain),
        3 => Some(WriteEv::Epipe),
        _ => Some(WriteEv::Zero),
    };
    let mut writes = vec![exact(p[0], l1)];
    let rem = l1 - p[0] as usize;
    if rem > 0 {
        writes.push(exact(p[1].min(rem as u64).max(1), rem));
    }
    for _ in 0..6 {
        writes.push(WriteEv::All);
    }
    for (i, w) in writes.into_iter().enumerate() {
        if let Some(f) = fault {
            if i as u64 == p[2] {
                ops.push(WOp::Write(f));
            }
        }
        ops.push(WOp::Write(w));
    }
    // a late enqueue and flush, to see re-use
    ops.push(WOp::Enq(1, 400, vec![Call::SetBody(b"late".to_vec())]));
    ops.push(WOp::Write(WriteEv::All));
    ops.push(WOp::Write(WriteEv::All));
    c06_run(&ops, obs)?;
    obs.nontrivial = true;
    if obs.want_render {
        obs.render = format!("two responses ({} bytes, then 204); first write takes {}, second {}, fault {:?} before write #{}", l1, p[0], p[1], fault, p[2]);
    }
    Ok(())
}

fn c06_pairs_enum(tier: Tier, shard: u64, nshards: u64, f: &mut dyn FnMut(&[u64]) -> bool) {
    let l1 = build_model(1, 200, &[Call::SetBody(b"first".to_vec())]).bytes().len() as u64;
    let mut c = 0u64;
    for k1 in 1..=l1 {
        let step = if tier == Tier::Quick { 3 } else { 1 };
        let mut k2 = 1;
        while k2 <= (l1 - k1).max(1) {
            for pos in 0..4u64 {
                for kind in 0..5u64 {
                    if kind == 0 && pos > 0 {
                        continue;
                    }
                    c += 1;
                    if c % nshards == shard && !f(&[k1, k2, pos, kind]) {
                        return;
                    }
                }
            }
            k2 += step;
        }
    }
}

fn c06_plan(tier: Tier) -> Vec<Job> {
    let q = tier == Tier::Quick;
    vec![
        Job { sub: "hist", kind: JobKind::Pbt { cases: if q { 400_000 } else { 8_000_000 }, max_len: 500 }, smallbuf: false },
        Job { sub: "mixed", kind: JobKind::Pbt { cases: if q { 150_000 } else { 3_000_000 }, max_len: 300 }, smallbuf: false },
        Job { sub: "pairs", kind: JobKind::Enum { f: c06_pairs_enum, bound: "two responses: every size k1 of the first short write x every size k2 of the second (quick: every third) x one fault {none, EINTR, EAGAIN, EPIPE, zero} before write #0..3" }, smallbuf: false },
    ]
}

pub fn c06() -> PropDef {
    PropDef {
        id: "C06",
        subs: vec![("hist", c06_hist), ("pairs", c06_pairs), ("mixed", c06_mixed)],
        plan: c06_plan,
        rule: "case = history of <=60 operations {enqueue(response with body 0..8 KiB), try_write under a stream behaviour from {accept k for 1<=k<=len incl. 1, len-1, len; EINTR; EAGAIN; EPIPE; zero}}; oracle = model: bytes accepted since the last failure are a prefix of the concatenated serialisation-model bytes of the responses enqueued since then, pending_write() iff a byte is unsent, one write per call, InvalidWrite without touching the stream when nothing is pending, failure discards everything; non-trivial = a short write followed by a later write, a failure with output pending, or an enqueue while a response is partially written",
        assumptions: vec!["EAGAIN from the stream counts as a non-interrupt error (the statement says so)"],
        single_threaded_world: false,
    }
}

// =======================================================================================
// C11

#[derive(Clone)]
struct UStep {
    ev_kind: u8,
    chunk: Vec<u8>,
    res: RRes,
    reqs: Vec<Delivered>,
    out: Vec<u8>,
    got: usize,
}

fn ev_code(e: &ReadEv) -> u8 {
    match e {
        ReadEv::Data { .. } => 0,
        ReadEv::Eagain => 1,
        ReadEv::Eintr => 2,
        ReadEv::Eof { .. } => 3,
        ReadEv::Errno(_) => 4,
    }
}

/// Run the used connection over the whole stream, then compare every post-error suffix
/// with a fresh connection fed the same chunks.
pub fn c11_differential(stream: &[u8], limit: Option<usize>, sched: &mut dyn FnMut(usize, usize, usize) -> ReadEv, obs: &mut Obs, render: &mut String) -> Result<usize, Fail> {
    let mut handed = Vec::new();
    c11_differential_fds(stream, limit, sched, obs, render, &mut handed)
}

thread_local! {
    /// (read index, new payload limit): the owner reconfigures the used connection before that
    /// read (one-shot plan, taken by the next differential run)
    pub static C11_LIMIT_PLAN: std::cell::RefCell<Vec<(usize, usize)>> = std::cell::RefCell::new(Vec::new());
}

/// same; `handed` receives the descriptor numbers the scripted stream actually passed to the
/// used connection (the schedule may attach real descriptors to its reads)
pub fn c11_differential_fds(stream: &[u8], limit: Option<usize>, sched: &mut dyn FnMut(usize, usize, usize) -> ReadEv, obs: &mut Obs, render: &mut String, handed: &mut Vec<RawFd>) -> Result<usize, Fail> {
    let plan: Vec<(usize, usize)> = C11_LIMIT_PLAN.with(|p| std::mem::take(&mut *p.borrow_mut()));
    let mut u = ConnRun::new(stream.to_vec(), limit, true);
    let mut steps: Vec<UStep> = Vec::new();
    let mut window = buf_size();
    let mut guardn = 0;
    // payload limit in effect before each read of the used connection
    let mut cur_limit = limit;
    let mut limit_before: Vec<Option<usize>> = Vec::new();
    while u.remaining() > 0 && guardn < 4 * stream.len() + 64 {
        guardn += 1;
        for (at, l) in &plan {
            if *at == steps.len() {
                u.conn.set_payload_max_size(*l);
                cur_limit = Some(*l);
                obs.label("payload_limit_changed_during_the_connection");
            }
        }
        limit_before.push(cur_limit);
        let ev = sched(u.consumed, stream.len(), window);
        let before = u.consumed;
        let st = match u.read(ev.clone()) {
            Ok(s) => s.clone(),
            Err(m) => return Err(Fail::new("C11:misuse", m)),
        };
        if st.iov_len > 0 {
            window = st.iov_len;
        }
        if let RRes::Panic(m) = &st.res {
            return Err(Fail::new("C11:panic", format!("try_read panicked: {}", m)));
        }
        steps.push(UStep { ev_kind: ev_code(&ev), chunk: stream[before..u.consumed].to_vec(), res: st.res.clone(), reqs: st.reqs.clone(), out: st.out.clone(), got: st.got });
    }
    *handed = u.ss.borrow().handed_fds.clone();
    // the used connection (and every descriptor it still holds) goes away here
    drop(u);
    let err_idx: Vec<usize> = steps.iter().enumerate().filter(|(_, s)| matches!(s.res, RRes::Parse(_, _))).map(|(i, _)| i).collect();
    if obs.want_render {
        render.push_str(&format!(
            "used connection: {:?}\n",
            steps.iter().map(|s| format!("{}B->{}{}", s.got, match &s.res { RRes::Ok => "ok".to_string(), RRes::Parse(_, d) => format!("ERR {}", d.chars().take(40).collect::<String>()), o => format!("{:?}", o) }, if s.reqs.is_empty() { String::new() } else { format!("+{}req", s.reqs.len()) })).collect::<Vec<_>>()
        ));
    }
    // nothing is promised to the client on behalf of a rejected request: up to and including the
    // read that reports the first error, the interim responses are exactly those of the requests
    // whose header block was complete and acceptable before it (by the reference parser)
    if plan.is_empty() {
        if let Some(&e0) = err_idx.first() {
            let consumed: usize = steps[..=e0].iter().map(|s| s.got).sum();
            let mut out_all = Vec::new();
            for s in &steps[..=e0] {
                out_all.extend_from_slice(&s.out);
            }
            let (rs, rend) = rr_parse(&out_all);
            let (reqs, _) = ref_parse(stream, buf_size(), eff(limit));
            let want = reqs.iter().filter(|r| r.wants_continue && r.headers_done_at <= consumed).count();
            let got = rs.iter().filter(|r| r.code == 100).count();
            if rend != RrEnd::Clean || rs.len() != got || got != want {
                return Err(Fail::new(
                    "C11:interim-for-rejected",
                    format!("up to the read that reports the first parse error (after {} bytes) the connection wrote \"{}\": {} interim response(s), {} expected from the requests accepted before the rejected one", consumed, esc(&out_all[..out_all.len().min(200)]), got, want),
                ));
            }
        }
    }
    let mut compared = 0;
    for (k, &e) in err_idx.iter().enumerate() {
        let stop = err_idx.get(k + 1).copied().unwrap_or(steps.len() - 1);
        if e + 1 > stop {
            continue;
        }
        let mut tail = Vec::new();
        for s in &steps[e + 1..=stop] {
            tail.extend_from_slice(&s.chunk);
        }
        // "a newly created connection with the same configuration": the limit in effect then,
        // reconfigured at the same points afterwards
        let mut f = ConnRun::new(tail, limit_before[e + 1], true);
        for j in e + 1..=stop {
            if j > e + 1 && limit_before[j] != limit_before[j - 1] {
                if let Some(l) = limit_before[j] {
                    f.conn.set_payload_max_size(l);
                }
            }
            let us = &steps[j];
            let ev = match us.ev_kind {
                0 => ReadEv::Data { want: us.got.max(1), fds: vec![] },
                1 => ReadEv::Eagain,
                2 => ReadEv::Eintr,
                3 => ReadEv::Eof { fds: vec![] },
                _ => ReadEv::Errno(libc::EIO),
            };
            if us.ev_kind == 0 && us.got == 0 {
                continue;
            }
            let fs = match f.read(ev) {
                Ok(s) => s.clone(),
                Err(m) => return Err(Fail::new("C11:misuse", m)),
            };
            if let RRes::Panic(m) = &fs.res {
                return Err(Fail::new("C11:panic", format!("fresh connection panicked: {}", m)));
            }
            compared += 1;
            if us.ev_kind == 0 && fs.got != us.got {
                return Err(Fail::new(
                    "C11:window",
                    format!("read #{} after the error: the used connection took {} bytes, a fresh connection offered the same bytes takes {} (receive windows differ)", j - e, us.got, fs.got),
                ));
            }
            let same_res = match (&us.res, &fs.res) {
                (RRes::ReadErr(_), RRes::ReadErr(_)) => true,
                (a, b) => a == b,
            };
            if !same_res || us.reqs != fs.reqs || us.out != fs.out {
                return Err(Fail::new(
                    "C11:stale-state",
                    format!(
                        "after a parse error at read #{}, read #{} of the continuation (chunk \"{}\") behaves differently from a fresh connection:\n used : {:?} requests={:?} output=\"{}\"\n fresh: {:?} requests={:?} output=\"{}\"",
                        e, j - e, esc(&us.chunk), us.res, us.reqs.iter().map(|d| (d.method, &d.uri_dbg, d.cl)).collect::<Vec<_>>(), esc(&us.out),
                        fs.res, fs.reqs.iter().map(|d| (d.method, &d.uri_dbg, d.cl)).collect::<Vec<_>>(), esc(&fs.out)
                    ) + &(if us.reqs != fs.reqs { format!("\n used requests in full : {:?}\n fresh requests in full: {:?}", us.reqs, fs.reqs) } else { String::new() }),
                ));
            }
        }
    }
    Ok(compared)
}

fn c11_continuation(s: &mut Src, cfg: &GenCfg, out: &mut Vec<u8>, obs: &mut Obs) {
    let n = s.range(1, 4);
    for i in 0..n {
        match s.weighted(&[10, 4, 4, 3, 3, 2]) {
            0 => {
                let mut notes = Notes::default();
                let mut c = cfg.clone();
                c.corrupt = 0;
                gen_request(s, &c, &mut notes, out);
                obs.label("B_valid_request");
            }
            1 => {
                out.extend_from_slice(b"\r\n");
                if i == 0 {
                    obs.label("B_starts_with_blank_line");
                }
            }
            2 => {
                out.extend_from_slice([&b"X-A: b\r\n"[..], b"Content-Length: 3\r\n", b"Expect: 100-continue\r\n"][s.below(3)]);
                if i == 0 {
                    obs.label("B_starts_with_header_like_line");
                }
            }
            3 => {
                out.extend_from_slice([&b"garbage\r\n"[..], b"\0\xff\r\n", b"GET\r\n", b" / HTTP/1.1\r\n\r\n", b"abc"][s.below(5)]);
                obs.label("B_garbage");
            }
            4 => {
                let mut notes = Notes::default();
                let mut c = cfg.clone();
                c.corrupt = 60;
                gen_request(s, &c, &mut notes, out);
                obs.label("B_possibly_another_error");
            }
            _ => {
                out.extend_from_slice(b"PUT /after HTTP/1.1\r\nExpect: 100-continue\r\nContent-Length: 4\r\n\r\nbody");
                obs.label("B_expect_request");
            }
        }
    }
}

fn c11_ab(input: &Input, obs: &mut Obs) -> Result<(), Fail> {
    let mut s = Src::new(input.bytes());
    let limit = pick_limit(&mut s, true);
    let mut cfg = GenCfg::new(buf_size(), eff(limit));
    cfg.corrupt = 40;
    cfg.max_reqs = 3;
    cfg.max_body = 3000;
    // A: regenerate until the grammar yields an error (bounded, by construction not rejection:
    // after two attempts an explicit faulty element is appended)
    let mut a = Vec::new();
    let mut notes = Notes::default();
    let nreq = 1 + s.weighted_n(3);
    for _ in 0..nreq {
        gen_request(&mut s, &cfg, &mut notes, &mut a);
    }
    let (_, end0) = ref_parse(&a, buf_size(), eff(limit));
    if !matches!(end0, End::Error { .. }) {
        // append an explicit fault, chosen from every error class and parser position
        let faults: [&[u8]; 12] = [
            b"BAD / HTTP/1.1\r\n",
            b"GET  HTTP/1.1\r\n",
            b"GET / HTTP/9.9\r\n",
            b"GET /\r\n",
            b"GET / HTTP/1.1\r\nnocolon\r\n",
            b"GET / HTTP/1.1\r\nX: \xff\r\n",
            b"PUT / HTTP/1.1\r\nContent-Length: x\r\n",
            b"PUT / HTTP/1.1\r\nX-A: b\r\nAccept-Encoding: identity;q=0\r\n",
            b"PUT / HTTP/1.1\r\nContent-Length: 4294967295\r\n\r\n",
            b"PUT / HTTP/1.1\r\nX-A: 1\r\nX-B: 2\r\nContent-Length: -1\r\n",
            b"GET /toolong",
            b"GET / HTTP/1.1\r\nX-Long: ",
        ];
        // a truncated A is made whole first so the fault starts at a request boundary (or not)
        let fi = s.below(faults.len());
        a.extend_from_slice(faults[fi]);
        if fi >= 10 {
            a.extend(std::iter::repeat(b'z').take(buf_size() + 8));
            a.extend_from_slice(b"\r\n");
        }
        obs.label("explicit_fault_appended");
    }
    let (reqs_a, end_a) = ref_parse(&a, buf_size(), eff(limit));
    let point = match &end_a {
        End::Error { point, err, .. } => {
            obs.label(match err {
                RefErr::ReqLine(_) | RefErr::ReqLineTooLong => "A_error_in_request_line",
                RefErr::Header(_) => "A_error_in_headers",
                RefErr::Payload { .. } => "A_error_payload",
            });
            *point
        }
        End::Incomplete => a.len(),
    };
    // optionally cut A right after the decidable point (the error-reporting read may or may not carry surplus)
    if s.chance(128) {
        a.truncate(point);
    } else {
        obs.label("surplus_after_fault_in_A");
    }
    let mut stream = a.clone();
    let mut cfgb = cfg.clone();
    cfgb.max_reqs = 2;
    c11_continuation(&mut s, &cfgb, &mut stream, obs);
    let bounds = {
        let mut extra = vec![point, a.len()];
        for r in &reqs_a {
            extra.push(r.headers_done_at);
        }
        boundaries(&stream, &extra)
    };
    let minwant = if stream.len() > 8192 { stream.len() / 256 } else { 1 };
    let mut render = String::new();
    // optionally the owner changes the payload limit at some read (or two) of the connection's life
    let mut limit_plan_active = false;
    if s.chance(40) {
        limit_plan_active = true;
        let mut plan = Vec::new();
        for _ in 0..s.range(1, 2) {
            let at = s.below(12);
            let l = [0usize, 1, 3, 5, 8, 40, 1024, 51200, u32::MAX as usize][s.below(9)];
            plan.push((at, l));
        }
        C11_LIMIT_PLAN.with(|p| *p.borrow_mut() = plan);
    }
    // optionally descriptors ride on reads of the rejected part: they must never reach a later request
    // (not together with limit changes: those move the point where the input is rejected, and a
    // descriptor arriving after that point rightly belongs to the continuation)
    let with_fds = s.chance(50) && !limit_plan_active;
    let mut pipes: Vec<Pipe> = Vec::new();
    let mut handed: Vec<RawFd> = Vec::new();
    // only on reads that start before the fault is decidable: later reads belong to the continuation
    let a_len = point;
    let res = {
        let mut sch = |consumed: usize, total: usize, window: usize| {
            let ctx = SchedCtx { consumed, total, window, bounds: &bounds };
            match next_read(&mut s, &ctx, 16) {
                ReadEv::Data { want, fds } => {
                    let mut fds = fds;
                    if with_fds && consumed < a_len && pipes.len() < 6 && s.chance(90) {
                        for _ in 0..s.range(1, 2) {
                            if let Some(p) = mkpipe(1000 + pipes.len() as u32) {
                                fds.push(p.rd);
                                pipes.push(p);
                            }
                        }
                    }
                    ReadEv::Data { want: want.max(minwant), fds }
                }
                e => e,
            }
        };
        c11_differential_fds(&stream, limit, &mut sch, obs, &mut render, &mut handed)
    };
    // descriptor hygiene: what was handed over must be closed by now, the rest is still ours
    let mut leaked = None;
    for p in &pipes {
        if handed.contains(&p.rd) {
            if res.is_ok() && !read_end_closed(p.wr) {
                leaked = Some(p.tag);
            }
        } else {
            unsafe { libc::close(p.rd) };
        }
        unsafe { libc::close(p.wr) };
    }
    let compared = res?;
    if let Some(t) = leaked {
        return Err(Fail::new("C11:fd-retained", format!("a descriptor (tag {}) received with the rejected input is still open after the connection was dropped", t)));
    }
    if !pipes.is_empty() {
        obs.label("descriptors_on_rejected_input");
    }
    obs.nontrivial = compared > 0;
    if reqs_a.iter().any(|r| r.complete_at != usize::MAX) {
        obs.label("error_after_complete_requests");
    }
    obs.case_hash = Some(fnv64(&stream) ^ fnv64(render.as_bytes()) ^ eff(limit) as u64);
    if obs.want_render {
        obs.render = format!("limit={:?} A[{}]++B[{}]=\"{}\"\n{}", limit, a.len(), stream.len() - a.len(), esc(&stream), render);
    }
    Ok(())
}

const C11_CONT: [&[u8]; 7] = [
    b"GET / HTTP/1.1\r\n\r\n",
    b"\r\n",
    b"X-A: b\r\n\r\n",
    b"zzz\r\n",
    b"PATCH /p HTTP/1.1\r\nContent-Length: 2\r\n\r\nhi",
    b"\r\nGET / HTTP/1.1\r\n\r\n",
    b" / HTTP/1.1\r\n\r\n",
];

/// params = [tier, index into the error streams of the small family, continuation, c1, c2]
fn c11_e2_32(input: &Input, obs: &mut Obs) -> Result<(), Fail> {
    let p = input.params();
    let tier = if p[0] == 0 { Tier::Quick } else { Tier::Thorough };
    let fam = small_family(tier);
    let (a, limit, _, end) = &fam[p[1] as usize];
    let point = match end {
        End::Error { point, .. } => *point,
        _ => return Ok(()),
    };
    let mut stream = a[..point.min(a.len())].to_vec();
    // keep the surplus of A for odd continuations
    if p[2] % 2 == 1 {
        stream = a.clone();
    }
    stream.extend_from_slice(C11_CONT[p[2] as usize]);
    let (c1, c2) = (p[3] as usize, p[4] as usize);
    let targets = [c1, c2];
    let mut render = String::new();
    let compared = {
        let mut sch = |consumed: usize, total: usize, window: usize| {
            let next = targets.iter().copied().find(|t| *t > consumed).unwrap_or(total);
            ReadEv::Data { want: (next - consumed).min(window.max(1)), fds: vec![] }
        };
        c11_differential(&stream, *limit, &mut sch, obs, &mut render)?
    };
    obs.nontrivial = compared > 0;
    if obs.want_render {
        obs.render = format!("B=32 stream=\"{}\" cuts=({},{})\n{}", esc(&stream), c1, c2, render);
    }
    Ok(())
}

fn c11_e2_32_enum(tier: Tier, shard: u64, nshards: u64, f: &mut dyn FnMut(&[u64]) -> bool) {
    let fam = small_family(tier);
    let t = if tier == Tier::Quick { 0 } else { 1 };
    let mut c = 0u64;
    for (si, (a, _, _, end)) in fam.iter().enumerate() {
        let point = match end {
            End::Error { point, .. } => *point,
            _ => continue,
        };
        c += 1;
        if c % nshards != shard {
            continue;
        }
        for (bi, cont) in C11_CONT.iter().enumerate() {
            let base = if bi % 2 == 1 { a.len() } else { point.min(a.len()) };
            let n = (base + cont.len()) as u64;
            // first cut anywhere, second cut anywhere after it; quick: second cut restricted to the continuation
            for c1 in 0..=n {
                let lo = if tier == Tier::Quick { c1.max(base as u64) } else { c1 };
                for c2 in lo..=n {
                    if !f(&[t, si as u64, bi as u64, c1, c2]) {
                        return;
                    }
                }
            }
        }
    }
}

/// Pop timing is the owner's business: a connection whose owner leaves parsed requests queued
/// (for any number of reads, any number of requests) reports the same results read by read,
/// and hands over the same requests, as one whose owner pops after every read; in particular
/// what can be popped after a parse error is exactly what had completed before the rejected
/// request. Long preambles of small requests put >1000 requests into the queue.
fn c11_defer(input: &Input, obs: &mut Obs) -> Result<(), Fail> {
    let mut s = Src::new(input.bytes());
    let limit = pick_limit(&mut s, true);
    let mut cfg = GenCfg::new(buf_size(), eff(limit));
    cfg.corrupt = 0;
    cfg.max_body = 200;
    let mut stream = Vec::new();
    // preamble of valid requests
    let npre = match s.weighted(&[6, 5, 4, 3]) {
        0 => s.below(6),
        1 => s.range(10, 200),
        2 => s.range(1000, 1100),
        _ => s.range(1100, 2600),
    };
    let small: [&[u8]; 4] = [b"GET / HTTP/1.1\r\n\r\n", b"GET /a HTTP/1.0\r\n\r\n", b"PUT /b HTTP/1.1\r\nContent-Length: 2\r\n\r\nhi", b"PATCH / HTTP/1.1\r\nExpect: 100-continue\r\nContent-Length: 1\r\n\r\nx"];
    let rich = s.chance(40) && npre < 300;
    for _ in 0..npre {
        if rich {
            let mut notes = Notes::default();
            gen_request(&mut s, &cfg, &mut notes, &mut stream);
        } else {
            stream.extend_from_slice(small[s.weighted(&[12, 3, 3, 1])]);
        }
    }
    // faults and continuations, possibly several rounds
    let rounds = s.below(3);
    for _ in 0..rounds {
        let faults: [&[u8]; 8] = [
            b"BAD / HTTP/1.1\r\n",
            b"GET / HTTP/9.9\r\n",
            b"GET /\r\n",
            b"GET / HTTP/1.1\r\nnocolon\r\n",
            b"PUT / HTTP/1.1\r\nContent-Length: x\r\n",
            b"PUT / HTTP/1.1\r\nX-A: b\r\nAccept-Encoding: identity;q=0\r\n",
            b"PUT / HTTP/1.1\r\nContent-Length: 4294967295\r\n\r\n",
            b"\r\n",
        ];
        stream.extend_from_slice(faults[s.below(faults.len())]);
        let mut cfgb = cfg.clone();
        cfgb.max_reqs = 2;
        c11_continuation(&mut s, &cfgb, &mut stream, obs);
    }
    // one read-size plan, shared by both runs
    let sizes = [1usize, 7, 18, 19, 100, 1023, 1024, 1024, 1024, 5000];
    let plan: Vec<usize> = (0..48).map(|_| sizes[s.weighted(&[1, 1, 2, 1, 2, 2, 6, 6, 6, 3])]).collect();
    // deferred run: which reads are followed by pops (of how many)
    let pop_plan: Vec<u8> = (0..48).map(|_| s.weighted(&[30, 2, 1]) as u8).collect();
    let run_one = |defer: bool| -> Result<(Vec<RRes>, Vec<Delivered>, Vec<usize>, Vec<u8>, usize), Fail> {
        let mut run = ConnRun::new(stream.clone(), limit, false);
        run.keep = true;
        run.defer_pop = defer;
        let mut results = Vec::new();
        let mut popped_at_error = Vec::new();
        let mut maxq = 0usize;
        let mut k = 0usize;
        let mut guard = 0usize;
        while run.remaining() > 0 && guard < 8 * stream.len() + 64 {
            guard += 1;
            let want = plan[k % plan.len()];
            let st = run.read(ReadEv::Data { want, fds: vec![] }).map_err(|m| Fail::new("C11:misuse", m))?.clone();
            if let RRes::Panic(m) = &st.res {
                return Err(Fail::new("C11:panic", m.clone()));
            }
            let is_err = matches!(st.res, RRes::Parse(..));
            results.push(st.res);
            if defer {
                if is_err {
                    // everything that can be popped now completed before the rejected request
                    run.pop_some(usize::MAX).map_err(|m| Fail::new("C11:panic", m))?;
                } else {
                    match pop_plan[k % pop_plan.len()] {
                        0 => {}
                        1 => {
                            run.pop_some(usize::MAX).map_err(|m| Fail::new("C11:panic", m))?;
                        }
                        _ => {
                            run.pop_some(1).map_err(|m| Fail::new("C11:panic", m))?;
                        }
                    }
                }
            }
            if is_err {
                popped_at_error.push(run.kept.len());
            }
            k += 1;
            let _ = &mut maxq;
        }
        if defer {
            let before = run.kept.len();
            run.pop_some(usize::MAX).map_err(|m| Fail::new("C11:panic", m))?;
            maxq = run.kept.len() - before;
        }
        let out = run.drain_out().map_err(|m| Fail::new("C11:output", m))?;
        let delivered: Vec<Delivered> = run.kept.iter().map(|(_, r)| delivered_of(r)).collect();
        Ok((results, delivered, popped_at_error, out, maxq))
    };
    let (r_now, d_now, e_now, o_now, _) = run_one(false)?;
    let (r_def, d_def, e_def, o_def, left) = run_one(true)?;
    if r_now.len() != r_def.len() {
        return Err(Fail::new("C11:pop-timing", format!("{} reads when popping at once, {} reads with requests left queued", r_now.len(), r_def.len())));
    }
    for (i, (a, b)) in r_now.iter().zip(r_def.iter()).enumerate() {
        if a != b {
            return Err(Fail::new("C11:pop-timing", format!("read #{}: {:?} when the owner pops after every read, {:?} when it leaves requests queued", i, a, b)));
        }
    }
    if e_now != e_def {
        return Err(Fail::new("C11:rejected-delivered", format!("requests available after each parse error: {:?} with requests left queued, {:?} when popping at once", e_def, e_now)));
    }
    if d_now.len() != d_def.len() {
        return Err(Fail::new("C11:pop-timing", format!("{} requests delivered with requests left queued, {} when popping at once", d_def.len(), d_now.len())));
    }
    for (i, (a, b)) in d_now.iter().zip(d_def.iter()).enumerate() {
        if a != b {
            return Err(Fail::new("C11:pop-timing", format!("delivered request #{} differs between the two pop schedules: {:?} vs {:?}", i, a, b)));
        }
    }
    if o_now != o_def {
        return Err(Fail::new("C11:pop-timing", "queued output differs between the two pop schedules".into()));
    }
    // and the whole run agrees with the reference on what is delivered before the first error
    let (reqs, end) = ref_parse(&stream, buf_size(), eff(limit));
    let ncomplete = reqs.iter().filter(|r| r.complete_at != usize::MAX).count();
    if let Some(first) = e_now.first() {
        if !matches!(end, End::Error { .. }) || *first != ncomplete {
            return Err(Fail::new("C11:first-error", format!("at the first parse error {} requests had been delivered; reference: {} complete requests, end {:?}", first, ncomplete, end)));
        }
    } else if matches!(end, End::Error { .. }) {
        return Err(Fail::new("C11:first-error", format!("reference ends in {:?} but no parse error was reported", end)));
    }
    if !e_now.is_empty() {
        obs.label("parse_error_reported");
    }
    if d_now.len() > 1024 {
        obs.label("more_than_1024_requests");
    }
    if left > 1024 {
        obs.label("more_than_1024_queued_at_once");
    }
    if left > 1 {
        obs.label("requests_left_queued");
    }
    obs.nontrivial = d_now.len() >= 2 && (left > 1 || !e_now.is_empty());
    obs.case_hash = Some(fnv64(input.bytes()));
    if obs.want_render {
        obs.render = format!("limit={:?} stream[{}]=\"{}\" plan={:?} pops={:?}", limit, stream.len(), esc(&stream), plan, pop_plan);
    }
    Ok(())
}

/// rejected requests with many accepted header fields in front of their fault, one or several in
/// a row, then well-formed requests that again have many fields: whatever the connection counts
/// or collects per request starts from nothing after each rejection
fn c11_fields(input: &Input, obs: &mut Obs) -> Result<(), Fail> {
    let mut s = Src::new(input.bytes());
    let mut stream = Vec::new();
    let rejections = s.range(1, 4);
    let mut rejected_fields = 0usize;
    for r in 0..rejections {
        let n = [3usize, 40, 90, 200, 254, 255, 256][s.below(7)];
        stream.extend_from_slice([&b"GET /rej HTTP/1.1\r\n"[..], b"PUT /rej HTTP/1.0\r\n"][s.below(2)]);
        for k in 0..n {
            stream.extend_from_slice(format!("X-R{}-{}: {}\r\n", r, k, k).as_bytes());
        }
        rejected_fields += n;
        stream.extend_from_slice([&b"nocolon\r\n"[..], b"Content-Length: x\r\n", b"Accept-Encoding: identity;q=0\r\n", b"X-Bad: \xff\r\n"][s.below(4)]);
    }
    let followers = s.range(1, 3);
    let mut max_fields = 0;
    for f in 0..followers {
        let m = [0usize, 10, 56, 100, 200, 255, 256, 300][s.below(8)];
        max_fields = max_fields.max(m);
        let body = s.chance(128);
        stream.extend_from_slice(if body { &b"PUT /ok HTTP/1.1\r\n"[..] } else { &b"GET /ok HTTP/1.1\r\n"[..] });
        for k in 0..m {
            stream.extend_from_slice(format!("X-F{}-{}: {}\r\n", f, k, k).as_bytes());
        }
        if body {
            stream.extend_from_slice(b"Expect: 100-continue\r\nContent-Length: 4\r\n\r\nbody");
        } else {
            stream.extend_from_slice(b"\r\n");
        }
    }
    let sizes = [1usize, 19, 100, 1024, 1024, 1024, 5000];
    let plan: Vec<usize> = (0..32).map(|_| sizes[s.below(sizes.len())]).collect();
    let mut i = 0usize;
    let mut sch = |_consumed: usize, _total: usize, _window: usize| {
        i += 1;
        ReadEv::Data { want: plan[i % plan.len()], fds: vec![] }
    };
    let mut render = String::new();
    let compared = c11_differential(&stream, None, &mut sch, obs, &mut render)?;
    if rejected_fields + max_fields > 255 {
        obs.label("more_than_255_fields_across_rejections_and_the_next_request");
    }
    if max_fields > 255 {
        obs.label("more_than_255_fields_in_one_request");
    }
    obs.nontrivial = compared > 0;
    obs.case_hash = Some(fnv64(input.bytes()));
    if obs.want_render {
        obs.render = format!("stream[{}]=\"{}\"\n{}", stream.len(), esc(&stream), render);
    }
    Ok(())
}

pub fn c11_conn_subs() -> Vec<(&'static str, SubFn)> {
    vec![("ab", c11_ab), ("e2_32", c11_e2_32), ("raw", crate::props::raw::c11_raw), ("defer", c11_defer), ("fields", c11_fields)]
}

pub fn c11_conn_jobs(tier: Tier) -> Vec<Job> {
    let q = tier == Tier::Quick;
    vec![
        Job { sub: "ab", kind: JobKind::Pbt { cases: if q { 150_000 } else { 3_000_000 }, max_len: 1400 }, smallbuf: false },
        Job { sub: "ab", kind: JobKind::Pbt { cases: if q { 30_000 } else { 500_000 }, max_len: 900 }, smallbuf: true },
        Job { sub: "fields", kind: JobKind::Pbt { cases: if q { 4_000 } else { 80_000 }, max_len: 80 }, smallbuf: false },
        Job { sub: "defer", kind: JobKind::Pbt { cases: if q { 3_000 } else { 60_000 }, max_len: 600 }, smallbuf: false },
        Job { sub: "defer", kind: JobKind::Pbt { cases: if q { 1_000 } else { 20_000 }, max_len: 600 }, smallbuf: true },
        Job { sub: "e2_32", kind: JobKind::Enum { f: c11_e2_32_enum, bound: "B=32: every error-ending stream of the piece family (cut at the decidable point, or whole) x 7 continuations x all cut pairs (quick: second cut inside the continuation)" }, smallbuf: true },
    ]
}

// =======================================================================================
// C12

struct Pipe {
    rd: RawFd,
    wr: RawFd,
    tag: u32,
    handed: bool,
    /// its owner (a delivered request) has dropped it during the run
    released: bool,
}

struct CloseOnDrop(Vec<RawFd>);

impl Drop for CloseOnDrop {
    fn drop(&mut self) {
        for d in &self.0 {
            unsafe { libc::close(*d) };
        }
    }
}

fn mkpipe(tag: u32) -> Option<Pipe> {
    let mut fds = [0i32; 2];
    let r = unsafe { libc::pipe2(fds.as_mut_ptr(), libc::O_CLOEXEC | libc::O_NONBLOCK) };
    if r != 0 {
        return None;
    }
    let b = tag.to_le_bytes();
    unsafe { libc::write(fds[1], b.as_ptr() as *const libc::c_void, 4) };
    Some(Pipe { rd: fds[0], wr: fds[1], tag, handed: false, released: false })
}

fn fd_count() -> usize {
    std::fs::read_dir("/proc/self/fd").map(|d| d.count()).unwrap_or(0)
}

/// write end reports EPIPE iff every copy of the read end is closed
fn read_end_closed(wr: RawFd) -> bool {
    let b = [0u8; 1];
    let r = unsafe { libc::write(wr, b.as_ptr() as *const libc::c_void, 1) };
    r < 0 && std::io::Error::last_os_error().raw_os_error() == Some(libc::EPIPE)
}

fn c12_ss(input: &Input, obs: &mut Obs) -> Result<(), Fail> {
    let mut s = Src::new(input.bytes());
    let mut cfg = GenCfg::new(buf_size(), crate::DEFAULT_LIMIT);
    cfg.corrupt = 0;
    cfg.max_reqs = 5;
    cfg.max_body = 2500;
    cfg.expect = 50;
    cfg.error_free = true;
    let mut stream = Vec::new();
    let mut notes = Notes::default();
    let nreq = 1 + s.below(5);
    for _ in 0..nreq {
        gen_request(&mut s, &cfg, &mut notes, &mut stream);
    }
    if s.chance(40) {
        let cut = s.below(stream.len() + 1);
        stream.truncate(cut);
    }
    let (reqs, end) = ref_parse(&stream, buf_size(), crate::DEFAULT_LIMIT);
    if matches!(end, End::Error { .. }) {
        // error-free inputs only (C11 judges the rest)
        obs.excluded = true;
        return Ok(());
    }
    let extra: Vec<usize> = reqs.iter().filter(|r| r.complete_at != usize::MAX).map(|r| r.complete_at).collect();
    let bounds = boundaries(&stream, &extra);
    let total = stream.len();
    let mut eof_done = false;
    let mut guardn = 0usize;
    let lazy = s.chance(50);
    let mut decide = |run: &ConnRun, total_fds: usize| -> Option<(ReadEv, usize, C12Post)> {
        if !((run.remaining() > 0 || (!eof_done && s.chance(40))) && guardn < 4 * total + 64) {
            return None;
        }
        guardn += 1;
        let ctx = SchedCtx { consumed: run.consumed, total, window: buf_size(), bounds: &bounds };
        let ev = if run.remaining() == 0 {
            eof_done = true;
            ReadEv::Eof { fds: vec![] }
        } else {
            next_read(&mut s, &ctx, 24)
        };
        let nf = match s.weighted(&[30, 8, 5, 1]) {
            0 => 0,
            1 => 1,
            2 => s.range(2, 6),
            _ => if total_fds < 300 { 253 } else { 2 },
        };
        // mostly read-then-drain like the server; sometimes requests stay queued across reads,
        // and sometimes a response is written (or fails to be) in between
        let pop = match s.weighted(if lazy { &[8, 10, 6] } else { &[40, 6, 4] }) {
            0 => usize::MAX,
            1 => 0,
            _ => 1,
        };
        let write = match s.weighted(&[40, 3, 2, 2, 1, 1]) {
            0 => None,
            1 => Some(WriteEv::All),
            2 => Some(WriteEv::Epipe),
            3 => Some(WriteEv::Eagain),
            4 => Some(WriteEv::Zero),
            _ => Some(WriteEv::Accept(s.u16())),
        };
        let dummies = if s.chance(40) { s.range(1, 12) } else { 0 };
        let release = if s.chance(30) { Some(s.u8() as usize) } else { None };
        Some((ev, nf, C12Post { pop, write, dummies, release }))
    };
    let r = c12_core(&stream, &mut decide, obs);
    let npipes = r.as_ref().map(|n| *n).unwrap_or(0);
    r?;
    obs.case_hash = Some(fnv64(input.bytes()));
    if obs.want_render {
        obs.render = format!("stream[{}]=\"{}\" descriptors={} labels={:?}", stream.len(), esc(&stream), npipes, obs.labels);
    }
    Ok(())
}

/// Drive one connection over `stream`; `decide` supplies each read and the number of
/// descriptors that ride on it. Returns the number of descriptors created.
/// What the caller does between two reads: how many of the queued requests it pops, and
/// whether it enqueues a response and attempts a write under the given stream behaviour.
#[derive(Clone, Copy)]
pub struct C12Post {
    /// pop at most this many queued requests now (usize::MAX: all)
    pub pop: usize,
    pub write: Option<WriteEv>,
    /// descriptors opened just before this read's descriptors are created and closed right after:
    /// the numbers of this read's descriptors are higher than those of later reads
    pub dummies: usize,
    /// the owner of an already delivered request lets go of its descriptors now (index drawn
    /// from this value); their numbers become free for descriptors that arrive later
    pub release: Option<usize>,
}

impl C12Post {
    pub const ALL: C12Post = C12Post { pop: usize::MAX, write: None, dummies: 0, release: None };
}

fn c12_core(stream: &[u8], decide: &mut dyn FnMut(&ConnRun, usize) -> Option<(ReadEv, usize, C12Post)>, obs: &mut Obs) -> Result<usize, Fail> {
    let base_fds = fd_count();
    let mut pipes: Vec<Pipe> = Vec::new();
    let result = (|| -> Result<(), Fail> {
        let mut run = ConnRun::new(stream.to_vec(), None, false);
        run.keep = true;
        run.defer_pop = true;
        // completion points by the reference: with pops deferred the number of requests a read
        // completes is not observable at the read itself
        let (refreqs, _) = ref_parse(stream, buf_size(), crate::DEFAULT_LIMIT);
        let comp: Vec<usize> = refreqs.iter().filter(|r| r.complete_at != usize::MAX).map(|r| r.complete_at).collect();
        let mut done = 0usize;
        let mut pool: Vec<u32> = Vec::new(); // tags waiting at the connection
        let mut expected: Vec<Vec<u32>> = Vec::new(); // per delivered request
        let mut next_tag = 1u32;
        let mut total_fds = 0usize;
        while let Some((ev0, nf, post)) = decide(&run, total_fds) {
            let mut ev = ev0;
            let mut these: Vec<usize> = Vec::new();
            if nf > 0 {
                if let ReadEv::Data { .. } | ReadEv::Eof { .. } = ev {
                    let dummies: Vec<RawFd> = (0..post.dummies).map(|_| unsafe { libc::dup(2) }).filter(|d| *d >= 0).collect();
                    if !dummies.is_empty() {
                        obs.label("descriptor_numbers_not_increasing_across_reads");
                    }
                    let _close_dummies = CloseOnDrop(dummies);
                    for _ in 0..nf {
                        match mkpipe(next_tag) {
                            Some(p) => {
                                these.push(pipes.len());
                                pipes.push(p);
                                next_tag += 1;
                            }
                            None => break,
                        }
                    }
                    let fdv: Vec<RawFd> = these.iter().map(|i| pipes[*i].rd).collect();
                    total_fds += fdv.len();
                    ev = match ev {
                        ReadEv::Data { want, .. } => ReadEv::Data { want, fds: fdv },
                        _ => ReadEv::Eof { fds: fdv },
                    };
                }
            }
            let is_eof = matches!(ev, ReadEv::Eof { .. });
            let kept_before = run.kept.len();
            let st = match run.read(ev) {
                Ok(st) => st.clone(),
                Err(m) => return Err(Fail::new("C12:misuse", m)),
            };
            let (handed, room, rkind) = run.ss.borrow().read_log.last().map(|r| (r.nfds, r.fd_room, r.kind)).unwrap_or((0, 0, 9));
            if (rkind == 0 || rkind == 3) && room < these.len() {
                // a real socket would have truncated the control message: the descriptors are lost
                return Err(Fail::new("C12:room", format!("{} descriptors arrive with a read but the connection offered room for only {} (descriptors already pending: {})", these.len(), room, pool.len())));
            }
            for (k, i) in these.iter().enumerate() {
                if k < handed {
                    pipes[*i].handed = true;
                    pool.push(pipes[*i].tag);
                }
            }
            if is_eof {
                if handed > 0 {
                    obs.label("arrival_on_eof_read");
                }
                if st.res != RRes::Closed {
                    return Err(Fail::new("C12:eof", format!("zero-byte read gave {:?}", st.res)));
                }
            }
            match &st.res {
                RRes::Parse(_, d) => return Err(Fail::new("C12:harness", format!("error-free stream reported {}", d))),
                RRes::Panic(m) => return Err(Fail::new("C12:panic", m.clone())),
                _ => {}
            }
            let done_now = comp.iter().filter(|c| **c <= run.consumed).count();
            let ndel = done_now - done;
            done = done_now;
            let queued_before = (done - ndel).saturating_sub(kept_before);
            if ndel >= 1 {
                if !pool.is_empty() && ndel >= 2 {
                    obs.label("read_completing_2+_requests_with_descriptors");
                }
                expected.push(std::mem::take(&mut pool));
                for _ in 1..ndel {
                    expected.push(Vec::new());
                }
            } else if handed > 0 && !is_eof {
                obs.label("arrival_on_read_completing_no_request");
            }
            if handed == 253 {
                obs.label("253_on_one_read");
            }
            if ndel >= 1 && queued_before > 0 && expected[done - ndel..].iter().any(|e| !e.is_empty()) {
                obs.label("descriptors_for_request_completed_behind_unpopped_ones");
            }
            // the caller's moves before the next read
            if let Some(wev) = post.write {
                let mut r = Response::new(Version::Http11, StatusCode::OK);
                r.set_body(Body::new("c12"));
                run.conn.enqueue_response(r);
                run.ss.borrow_mut().next_write = Some(wev);
                let res = catch_unwind(AssertUnwindSafe(|| run.conn.try_write()));
                run.ss.borrow_mut().next_write = None;
                match res {
                    Err(p) => return Err(Fail::new("C12:panic", format!("panic in try_write: {}", crate::connrun::panic_msg(p)))),
                    Ok(Err(_)) => {
                        if !pool.is_empty() {
                            obs.label("failed_write_with_descriptors_pending");
                        }
                    }
                    Ok(Ok(())) => {}
                }
            }
            let popped = run.pop_some(post.pop).map_err(|m| Fail::new("C12:panic", m))?;
            if popped + kept_before < done {
                obs.label("requests_left_queued_across_a_read");
            }
            if run.kept.len() > done {
                return Err(Fail::new("C12:count-ref", format!("{} requests popped, {} complete by the reference", run.kept.len(), done)));
            }
            // check the newly delivered requests
            for (k, (_, rq)) in run.kept.iter_mut().enumerate().skip(kept_before) {
                let want = &expected[k];
                if rq.files.len() != want.len() {
                    return Err(Fail::new("C12:count", format!("request #{} carries {} descriptors, expected {} (tags {:?})", k, rq.files.len(), want.len(), want)));
                }
                for (j, f) in rq.files.iter_mut().enumerate() {
                    let mut b = [0u8; 4];
                    let n = f.read(&mut b).unwrap_or(0);
                    let tag = u32::from_le_bytes(b);
                    if n != 4 || tag != want[j] {
                        return Err(Fail::new("C12:identity", format!("request #{} descriptor {}: read tag {} ({} bytes), expected tag {}", k, j, tag, n, want[j])));
                    }
                }
            }
            // the owner of a delivered (and checked) request may let go of its descriptors
            if let Some(sel) = post.release {
                let cands: Vec<usize> = (0..run.kept.len()).filter(|k| !run.kept[*k].1.files.is_empty()).collect();
                if !cands.is_empty() {
                    let k = cands[sel % cands.len()];
                    let tags = expected[k].clone();
                    run.kept[k].1.files.clear();
                    for p in pipes.iter_mut().filter(|p| tags.contains(&p.tag)) {
                        p.released = true;
                        if !read_end_closed(p.wr) {
                            return Err(Fail::new("C12:copy-survives", format!("descriptor with tag {} is still open somewhere after the request that owned it dropped it", p.tag)));
                        }
                    }
                    obs.label("delivered_descriptors_released_while_the_connection_lives_on");
                }
            }
            // no descriptor number held twice
            let mut nums: Vec<RawFd> = run.kept.iter().flat_map(|(_, r)| r.files.iter().map(|f| f.as_raw_fd())).collect();
            let n0 = nums.len();
            nums.sort_unstable();
            nums.dedup();
            if nums.len() != n0 {
                return Err(Fail::new("C12:duplicate", "one descriptor number is owned by two delivered files".into()));
            }
        }
        // everything still queued is popped now
        {
            let kept_before = run.kept.len();
            run.pop_some(usize::MAX).map_err(|m| Fail::new("C12:panic", m))?;
            if run.kept.len() != done {
                return Err(Fail::new("C12:count-ref", format!("{} requests popped in all, {} complete by the reference", run.kept.len(), done)));
            }
            for (k, (_, rq)) in run.kept.iter_mut().enumerate().skip(kept_before) {
                let want = &expected[k];
                if rq.files.len() != want.len() {
                    return Err(Fail::new("C12:count", format!("request #{} carries {} descriptors, expected {} (tags {:?})", k, rq.files.len(), want.len(), want)));
                }
                for (j, f) in rq.files.iter_mut().enumerate() {
                    let mut b = [0u8; 4];
                    let n = f.read(&mut b).unwrap_or(0);
                    let tag = u32::from_le_bytes(b);
                    if n != 4 || tag != want[j] {
                        return Err(Fail::new("C12:identity", format!("request #{} descriptor {}: read tag {} ({} bytes), expected tag {}", k, j, tag, n, want[j])));
                    }
                }
            }
        }
        let delivered_with = expected.iter().filter(|e| !e.is_empty()).count();
        if total_fds >= 2 && run.kept.len() >= 2 {
            obs.nontrivial = obs.labels.iter().any(|l| l.starts_with("arrival_on_read_completing_no") || l.starts_with("read_completing_2+"));
        }
        if !pool.is_empty() {
            obs.label("leftover_at_drop");
        }
        if delivered_with > 0 {
            obs.label("descriptors_delivered");
        }
        // every delivered descriptor is still open while owned
        for p in pipes.iter().filter(|p| p.handed && !p.released) {
            if read_end_closed(p.wr) {
                return Err(Fail::new("C12:closed-early", format!("descriptor with tag {} was closed while its owner is alive", p.tag)));
            }
        }
        // drop everything
        let ConnRun { conn, kept, .. } = run;
        drop(kept);
        drop(conn);
        Ok(())
    })();
    // close what the harness still owns; then conservation
    let mut leak = None;
    for p in &pipes {
        if !p.handed {
            unsafe { libc::close(p.rd) };
        }
    }
    if result.is_ok() {
        for p in pipes.iter().filter(|p| p.handed) {
            if !read_end_closed(p.wr) {
                leak = Some(p.tag);
                break;
            }
        }
    }
    for p in &pipes {
        unsafe { libc::close(p.wr) };
    }
    result?;
    if let Some(t) = leak {
        // leaked read ends cannot be closed by number safely; the process moves on
        return Err(Fail::new("C12:leak", format!("descriptor with tag {} is still open after its request and the connection were dropped", t)));
    }
    let now = fd_count();
    if now != base_fds {
        return Err(Fail::new("C12:fd-count", format!("/proc/self/fd has {} entries, {} before the case", now, base_fds)));
    }
    Ok(pipes.len())
}

/// every descriptor count 0..=253 on one read: params = [k, placement]
/// placement 0: with the whole first request; 1: with its first bytes only; 2: k split over two
/// reads; 3: on a read that completes two requests; 4: on the zero-byte read; 5: k pending, then 253 more
fn c12_count(input: &Input, obs: &mut Obs) -> Result<(), Fail> {
    let p = input.params();
    let k = p[0] as usize;
    let placement = p[1];
    let r1: &[u8] = b"PUT /x HTTP/1.1\r\nContent-Length: 3\r\n\r\nabc";
    let r2: &[u8] = b"GET /y HTTP/1.1\r\n\r\n";
    let mut stream = r1.to_vec();
    stream.extend_from_slice(r2);
    // (want, nfds) per read; an entry with want 0 is the zero-byte read
    let plan: Vec<(usize, usize)> = match placement {
        0 => vec![(r1.len(), k), (r2.len(), 0)],
        1 => vec![(5, k), (r1.len() - 5, 0), (r2.len(), 1)],
        2 => vec![(7, k / 2), (r1.len() - 7, k - k / 2), (r2.len(), 0)],
        3 => vec![(r1.len() + r2.len(), k)],
        5 => vec![(5, k), (9, 253), (r1.len() - 14, 0), (r2.len(), 2)],
        _ => vec![(r1.len(), 1), (r2.len(), 0), (0, k)],
    };
    let mut i = 0;
    let mut decide = |_run: &ConnRun, _t: usize| -> Option<(ReadEv, usize, C12Post)> {
        let (want, nf) = *plan.get(i)?;
        i += 1;
        Some(if want == 0 { (ReadEv::Eof { fds: vec![] }, nf, C12Post::ALL) } else { (ReadEv::Data { want, fds: vec![] }, nf, C12Post::ALL) })
    };
    c12_core(&stream, &mut decide, obs)?;
    obs.nontrivial = k >= 2;
    if obs.want_render {
        obs.render = format!("{} descriptors, placement {}", k, placement);
    }
    Ok(())
}

fn c12_count_enum(_tier: Tier, shard: u64, nshards: u64, f: &mut dyn FnMut(&[u64]) -> bool) {
    let mut c = 0u64;
    for k in 0..=253u64 {
        for placement in 0..6u64 {
            // placement 5 (k pending, then 253 more on the next read) for a few k only: 500 pipes each
            if placement == 5 && !(k <= 2 || k == 127 || k >= 252) {
                continue;
            }
            c += 1;
            if c % nshards == shard && !f(&[k, placement]) {
                return;
            }
        }
    }
}

/// real socketpair with SCM_RIGHTS: conservation only
fn c12_socket(input: &Input, obs: &mut Obs) -> Result<(), Fail> {
    use std::os::unix::net::UnixStream;
    use vmm_sys_util::sock_ctrl_msg::ScmSocket;
    let mut s = Src::new(input.bytes());
    let mut cfg = GenCfg::new(buf_size(), crate::DEFAULT_LIMIT);
    cfg.corrupt = 0;
    cfg.max_body = 1500;
    cfg.expect = 50;
    cfg.error_free = true;
    let mut stream = Vec::new();
    let mut notes = Notes::default();
    for _ in 0..1 + s.below(4) {
        gen_request(&mut s, &cfg, &mut notes, &mut stream);
    }
    let (_, end) = ref_parse(&stream, buf_size(), crate::DEFAULT_LIMIT);
    if matches!(end, End::Error { .. }) {
        obs.excluded = true;
        return Ok(());
    }
    let base_fds = fd_count();
    let mut pipes: Vec<Pipe> = Vec::new();
    let res = (|| -> Result<(), Fail> {
        let (sender, receiver) = UnixStream::pair().map_err(|e| Fail::new("C12:harness", e.to_string()))?;
        let receiver_fd = receiver.as_raw_fd();
        receiver.set_nonblocking(true).ok();
        sender.set_nonblocking(true).ok();
        let mut conn = HttpConnection::new(receiver);
        let mut kept: Vec<Request> = Vec::new();
        let mut sent_tags: Vec<u32> = Vec::new();
        let mut pos = 0;
        let mut tag = 1u32;
        while pos < stream.len() {
            let n = [1usize, 7, 100, 1024, 4000][s.below(5)].min(stream.len() - pos);
            let nf = [0usize, 0, 0, 1, 2, 5][s.below(6)];
            let mut fds = Vec::new();
            for _ in 0..nf {
                if let Some(p) = mkpipe(tag) {
                    fds.push(p.rd);
                    sent_tags.push(tag);
                    pipes.push(p);
                    tag += 1;
                }
            }
            let chunk = &stream[pos..pos + n];
            let drain = |conn: &mut HttpConnection<UnixStream>, kept: &mut Vec<Request>| -> Result<(), Fail> {
                // read while the socket has something (what a read of an empty socket returns is
                // not relied upon)
                let mut rounds = 0;
                loop {
                    let mut avail: libc::c_int = 0;
                    let rc = unsafe { libc::ioctl(receiver_fd, libc::FIONREAD, &mut avail) };
                    rounds += 1;
                    if rc != 0 || avail <= 0 || rounds > 100_000 {
                        break;
                    }
                    match conn.try_read() {
                        Ok(()) => {}
                        Err(micro_http::ConnectionError::StreamReadError(_)) => break,
                        Err(e) => return Err(Fail::new("C12:harness", format!("unexpected {:?} on an error-free stream", e))),
                    }
                    while let Some(r) = conn.pop_parsed_request() {
                        kept.push(r);
                    }
                }
                while let Some(r) = conn.pop_parsed_request() {
                    kept.push(r);
                }
                Ok(())
            };
            let mut tries = 0;
            loop {
                match sender.send_with_fds(&[chunk], &fds) {
                    Ok(k) if k == n => break,
                    Ok(k) => return Err(Fail::new("C12:harness", format!("partial send {} of {}", k, n))),
                    Err(e) if e.errno() == libc::EAGAIN && tries < 1000 => {
                        // socket buffer full: let the connection read, then retry
                        tries += 1;
                        drain(&mut conn, &mut kept)?;
                    }
                    Err(e) => return Err(Fail::new("C12:harness", format!("send_with_fds: {}", e))),
                }
            }
            pos += n;
            // the sender's copies of the read ends are closed right away: only the receiver's copies remain
            for p in pipes.iter_mut().filter(|p| !p.handed) {
                unsafe { libc::close(p.rd) };
                p.handed = true;
            }
            if s.chance(150) || pos == stream.len() {
                drain(&mut conn, &mut kept)?;
            }
        }
        // every sent descriptor appears exactly once, in send order, in some delivered request (or stays with the connection)
        let mut got_tags = Vec::new();
        for r in kept.iter_mut() {
            for f in r.files.iter_mut() {
                let mut b = [0u8; 4];
                let n = f.read(&mut b).unwrap_or(0);
                if n != 4 {
                    return Err(Fail::new("C12:identity", "a delivered descriptor does not carry a tag".into()));
                }
                got_tags.push(u32::from_le_bytes(b));
            }
        }
        if got_tags.len() > sent_tags.len() || got_tags[..] != sent_tags[..got_tags.len()] {
            return Err(Fail::new("C12:order", format!("descriptors delivered {:?}, sent {:?}", got_tags, sent_tags)));
        }
        if sent_tags.len() >= 2 && kept.len() >= 2 {
            obs.nontrivial = true;
        }
        drop(kept);
        drop(conn);
        drop(sender);
        Ok(())
    })();
    let mut leak = None;
    if res.is_ok() {
        for p in &pipes {
            if !read_end_closed(p.wr) {
                leak = Some(p.tag);
                break;
            }
        }
    }
    for p in &pipes {
        if !p.handed {
            unsafe { libc::close(p.rd) };
        }
        unsafe { libc::close(p.wr) };
    }
    res?;
    if let Some(t) = leak {
        return Err(Fail::new("C12:leak", format!("socketpair: descriptor with tag {} still open after everything was dropped", t)));
    }
    if fd_count() != base_fds {
        return Err(Fail::new("C12:fd-count", format!("/proc/self/fd has {} entries, {} before", fd_count(), base_fds)));
    }
    if obs.want_render {
        obs.render = format!("socketpair stream[{}]=\"{}\" descriptors sent={}", stream.len(), esc(&stream), pipes.len());
    }
    Ok(())
}

fn c12_plan(tier: Tier) -> Vec<Job> {
    let q = tier == Tier::Quick;
    vec![
        Job { sub: "ss", kind: JobKind::Pbt { cases: if q { 80_000 } else { 1_500_000 }, max_len: 900 }, smallbuf: false },
        Job { sub: "ss", kind: JobKind::Pbt { cases: if q { 10_000 } else { 200_000 }, max_len: 700 }, smallbuf: true },
        Job { sub: "socket", kind: JobKind::Pbt { cases: if q { 4_000 } else { 60_000 }, max_len: 500 }, smallbuf: false },
        Job { sub: "count", kind: JobKind::Enum { f: c12_count_enum, bound: "every descriptor count 0..253 x 5 placements (with the whole request, with its first bytes, split over two reads, on a read completing two requests, on the zero-byte read)" }, smallbuf: false },
    ]
}

pub fn c12() -> PropDef {
    PropDef {
        id: "C12",
        subs: vec![("ss", c12_ss), ("socket", c12_socket), ("count", c12_count)],
        plan: c12_plan,
        rule: "case = error-free pipelined stream x read schedule x assignment of 0..253 real descriptors (tagged pipe read ends) to reads incl. reads completing 0/1/several requests and the zero-byte read; oracle = pool model (descriptors arriving with a read join a pool; the first request completed by that or a later read receives the whole pool in arrival order), identity by tag read from the descriptor, no number owned twice, open while owned, and after dropping requests and connection every kept write end reports EPIPE and /proc/self/fd is back to its baseline; second harness: real socketpair with SCM_RIGHTS (conservation and order); non-trivial = >=2 descriptors and >=2 requests with a descriptor arriving on a read that completes no request or several; between reads the owner pops all, none or one of the queued requests and may enqueue a response and attempt a write under accept-all/partial/EPIPE/EAGAIN/zero (completion points then come from the reference parser)",
        assumptions: vec!["one case at a time per worker process (descriptor numbers are a per-process resource)", "streams whose REF outcome is a parse error are excluded and counted (C11 judges them)"],
        single_threaded_world: true,
    }
}
