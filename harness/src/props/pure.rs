//! Properties over pure functions: C05 (response serialisation), C14 (one-shot vs
//! incremental), C15 (header rules), C16 (tokens and URIs), C17 (router).

use std::collections::BTreeMap;
use std::io::Write;
use std::sync::{Arc, Mutex};

use micro_http::{
    Body, Encoding, EndpointHandler, Headers, HttpHeaderError, HttpRoutes, MediaType, Method, Request, RequestError, Response,
    StatusCode, Version,
};

use crate::connrun::*;
use crate::engine::*;
use crate::gen::*;
use crate::refparse::*;
use crate::respread::*;
use crate::src::{esc, filler, fnv64, Src};
use crate::stream::ReadEv;
use crate::{buf_size, DEFAULT_LIMIT};

// =======================================================================================
// C15

const REC_NAMES: [&str; 7] =
    ["Content-Length", "Content-Type", "Expect", "Transfer-Encoding", "Server", "Accept", "Accept-Encoding"];

fn c15_value_for(s: &mut Src, name_idx: usize) -> String {
    let v = c15_value_plain(s, name_idx);
    if s.chance(16) {
        crate::gen::hazard_value(s, &v)
    } else {
        v
    }
}

fn c15_value_plain(s: &mut Src, name_idx: usize) -> String {
    // list-valued headers with parameters and weights, built combinatorially
    if s.chance(60) {
        match name_idx {
            1 | 5 => return weighted_list(s, &["text/plain", "application/json", "*/*", "text/html"], false),
            6 => return weighted_list(s, &["gzip", "identity", "*", "deflate", "x-nonid"], false),
            _ => {}
        }
    }
    let v: &[&str] = match name_idx {
        0 => &["0", "5", "007", "4294967295", "4294967296", "-1", "+5", "", "1 2", "\u{ff15}", "5;", "0x5", "99999999999999999999", "+", "-0", "1e3"],
        1 | 5 => &["application/json", "text/plain", "text/html", "Text/Plain", "", "application/json; charset=utf-8", "text/plain,application/json", "\u{a0}text/plain\u{a0}", "application/json2", "text/plain x", "application/json ;q=0", "x text/plain", "application/json\ttext/plain"],
        2 => &["100-continue", "100-Continue", "103-checkpoint", "", "100-continue, x", "100-continue\u{3000}"],
        3 => &["chunked", "identity", "gzip", "Chunked", "", "chunked, gzip", "identity;q=0", "gzip, br", "chunked,", ", x", "\u{212a}, gzip", "\u{130}\u{130},", "\u{23a}\u{23a}\u{23a}, x"],
        4 => &["x", "", "Firecracker API", "a:b"],
        _ => &[
            "gzip", "identity", "*", "identity;q=0", "*;q=0", "*;q=0, identity", "identity, *;q=0", "", "gzip, deflate",
            "identity; q=0", "gzip , identity;q=0", "*;q=0,gzip", ",", ",,identity;q=0", "IDENTITY;q=0", "*;q=0, Identity",
            "*;q=0.0", " identity;q=0 ", "x-identity-y, *;q=0",
        ],
    };
    v[s.below(v.len())].to_string()
}

fn c15_pad(s: &mut Src) -> &'static str {
    const PADS: [&str; 9] = ["", " ", "\t", "\u{a0}", "\u{3000}", "  ", "\r", "\n", " \t "];
    PADS[s.weighted(&[30, 10, 5, 4, 3, 3, 2, 2, 2])]
}

pub fn c15_line(s: &mut Src, obs_labels: &mut Vec<&'static str>) -> Vec<u8> {
    let kind = s.weighted(&[40, 14, 6, 5]);
    match kind {
        0 => {
            // recognised name
            let ni = s.below(7);
            let mut name = REC_NAMES[ni].to_string();
            match s.weighted(&[8, 3, 3, 6]) {
                0 => {}
                1 => name = name.to_ascii_lowercase(),
                2 => name = name.to_ascii_uppercase(),
                _ => {
                    let bits = s.u32();
                    name = name
                        .chars()
                        .enumerate()
                        .map(|(i, c)| if (bits >> (i % 32)) & 1 == 1 { if c.is_ascii_lowercase() { c.to_ascii_uppercase() } else { c.to_ascii_lowercase() } } else { c })
                        .collect();
                    obs_labels.push("name_case_flips");
                }
            }
            let (l, r) = (c15_pad(s), c15_pad(s));
            if !l.is_empty() || !r.is_empty() {
                obs_labels.push("name_padded");
                if l.contains('\u{a0}') || l.contains('\u{3000}') || r.contains('\u{a0}') || r.contains('\u{3000}') {
                    obs_labels.push("unicode_padding");
                }
            }
            let val = c15_value_for(s, ni);
            let (vl, vr) = (c15_pad(s), c15_pad(s));
            format!("{}{}{}:{}{}{}", l, name, r, vl, val, vr).into_bytes()
        }
        1 => {
            // other names
            // (unrecognised names, among them standard ones and those the crate itself writes in responses)
            let names = ["X-A", "x-a", "X-B", "", " ", "Content-Lengt", "Content-Length2", "Expect2", "\u{212a}", "Con tent-Length", "Host", "A B", "Accept-Encodin", "\u{a0}X-A\u{a0}", "Content\u{2010}Length",
                "Allow", "Connection", "Deprecation", "Date", "Keep-Alive", "Accept-Language", "Accept-Charset", "Content-Encoding", "Content-Range", "Cookie", "Via", "TE", "Upgrade"];
            let n = names[s.below(names.len())];
            let vals = ["v", "", " v ", "a:b", "100-continue", "5", "\u{3000}w\u{3000}", "::"];
            let v = vals[s.below(vals.len())];
            format!("{}{}:{}{}", c15_pad(s), n, c15_pad(s), v).into_bytes()
        }
        2 => {
            obs_labels.push("no_or_multi_colon");
            // (a line of blanks only is a line without a colon, not the end of the block)
            let raw: [&[u8]; 11] = [b"nocolon", b"Content-Length 5", b"a:b:c:d", b"Content-Length: 5: 2", b":", b"Expect:100-continue:x", b" ", b"\t", b"\xc2\xa0", b"\xe3\x80\x80 ", b" \t \xe2\x80\x83"];
            raw[s.below(raw.len())].to_vec()
        }
        _ => {
            obs_labels.push("non_utf8");
            if s.chance(90) {
                let raw: [&[u8]; 6] = [b"X-A: \xff", b"\xff: v", b"\xc3\x28: \xa0\xa1", b"Content-Length: 5\xfe", b"\x80", b"Accept-Encoding: gzip\xc0"];
                return raw[s.below(raw.len())].to_vec();
            }
            // any otherwise generated line with an ill-formed sequence injected anywhere:
            // in the name, at the colon, in the value (of every recognised field), at either end
            let mut base = loop {
                let mut scratch = Vec::new();
                let l = c15_line(s, &mut scratch);
                if std::str::from_utf8(&l).is_ok() {
                    break l;
                }
            };
            let bad: [&[u8]; 7] = [b"\xff", b"\x80", b"\xc3", b"\xe2\x82", b"\xc0\xaf", b"\xed\xa0\x80", b"\xf8\x88\x80\x80\x80"];
            let seq = bad[s.below(bad.len())];
            // insert on a character boundary so that the rest of the line stays as generated
            let mut at = match s.weighted(&[3, 3, 2, 2]) {
                0 => s.below(base.len() + 1),
                1 => base.len(),
                2 => base.iter().position(|b| *b == b':').map(|i| i + 1).unwrap_or(0),
                _ => 0,
            };
            while at < base.len() && (base[at] & 0xc0) == 0x80 {
                at += 1;
            }
            let tail = base.split_off(at);
            base.extend_from_slice(seq);
            base.extend_from_slice(&tail);
            if std::str::from_utf8(&base).is_ok() {
                base.push(0xff);
            }
            base
        }
    }
}

#[derive(Debug, PartialEq, Eq, Clone, Copy)]
enum Cls {
    Ok,
    Ignored,
    Fatal,
}

fn real_class(r: &Result<(), RequestError>) -> Cls {
    match r {
        Ok(()) => Cls::Ok,
        Err(RequestError::HeaderError(HttpHeaderError::UnsupportedValue(_, _))) => Cls::Ignored,
        Err(_) => Cls::Fatal,
    }
}

fn href_class(c: LineClass) -> Cls {
    match c {
        LineClass::Accepted => Cls::Ok,
        LineClass::Ignored => Cls::Ignored,
        LineClass::Fatal(_) => Cls::Fatal,
    }
}

fn headers_eq(h: &Headers, r: &RefHeaders) -> Option<String> {
    if h.content_length() != r.content_length {
        return Some(format!("content_length {} != {}", h.content_length(), r.content_length));
    }
    if h.expect() != r.expect {
        return Some(format!("expect {} != {}", h.expect(), r.expect));
    }
    if h.chunked() != r.chunked {
        return Some(format!("chunked {} != {}", h.chunked(), r.chunked));
    }
    if media_code(h.accept()) != r.accept {
        return Some(format!("accept {:?} != {:?}", h.accept(), r.accept));
    }
    let c: BTreeMap<String, String> = h.custom_entries().iter().map(|(k, v)| (k.clone(), v.clone())).collect();
    if c != r.custom {
        return Some(format!("custom {:?} != {:?}", c, r.custom));
    }
    None
}

fn real_headers_eq(a: &Headers, b: &Headers) -> bool {
    a.content_length() == b.content_length()
        && a.expect() == b.expect()
        && a.chunked() == b.chunked()
        && a.accept() == b.accept()
        && a.custom_entries() == b.custom_entries()
}

/// the three-way check on one block made of `lines`
pub fn c15_check_lines(lines: &[Vec<u8>], terminator: usize) -> Result<(), Fail> {
    let mut block = Vec::new();
    for (i, l) in lines.iter().enumerate() {
        if i > 0 {
            block.extend_from_slice(b"\r\n");
        }
        block.extend_from_slice(l);
    }
    match terminator {
        1 => block.extend_from_slice(b"\r\n"),
        2 => block.extend_from_slice(b"\r\n\r\n"),
        _ => {}
    }
    // (c) per line: outcome class == HREF, applied to a running pair of states
    let mut real = Headers::default();
    let mut model = RefHeaders::default();
    let mut fold_fatal = false;
    for l in lines {
        let rc = real_class(&real.parse_header_line(l));
        let mc = href_class(href_line(&mut model, l));
        // what matters is whether the line rejects the request; how a tolerated fault is signalled
        // to the caller of the line API (an ignorable error today) is not part of the rules, its
        // effect on the parsed view is (checked right below)
        if (rc == Cls::Fatal) != (mc == Cls::Fatal) {
            return Err(Fail::new("C15:line-class", format!("line \"{}\": parse_header_line -> {:?}, header rules -> {:?}", esc(l), rc, mc)));
        }
        if rc == Cls::Fatal {
            fold_fatal = true;
            break;
        }
        if let Some(m) = headers_eq(&real, &model) {
            return Err(Fail::new("C15:line-effect", format!("after line \"{}\": {}", esc(l), m)));
        }
    }
    // (a) block vs HREF, (b) block vs line-by-line fold
    let blk = Headers::try_from(&block);
    let hb = href_block(&block);
    match (&blk, &hb) {
        (Ok(h), Ok(r)) => {
            if let Some(m) = headers_eq(h, r) {
                return Err(Fail::new("C15:block-value", format!("Headers::try_from(\"{}\"): {}", esc(&block), m)));
            }
            if fold_fatal {
                return Err(Fail::new("C15:block-vs-lines", format!("block \"{}\" accepted but one of its lines is fatal alone", esc(&block))));
            }
            if !real_headers_eq(h, &real) {
                return Err(Fail::new("C15:block-vs-lines", format!("block \"{}\": parsing the block differs from folding its lines", esc(&block))));
            }
        }
        (Err(_), Err(_)) => {
            if !fold_fatal {
                return Err(Fail::new("C15:block-vs-lines", format!("block \"{}\" rejected but every line is acceptable alone", esc(&block))));
            }
        }
        (Ok(_), Err(f)) => return Err(Fail::new("C15:block-accept", format!("block \"{}\" accepted; header rules reject it ({:?})", esc(&block), f))),
        (Err(e), Ok(_)) => return Err(Fail::new("C15:block-reject", format!("block \"{}\" rejected with {:?}; header rules accept it", esc(&block), e))),
    }
    Ok(())
}

fn c15_blocks(input: &Input, obs: &mut Obs) -> Result<(), Fail> {
    let mut s = Src::new(input.bytes());
    let n = s.below(7);
    let mut labels = Vec::new();
    let mut lines = Vec::new();
    for _ in 0..n {
        let mut l = c15_line(&mut s, &mut labels);
        // a line never contains CRLF (padding CR followed by padding LF would split it)
        while let Some(i) = l.windows(2).position(|w| w == b"\r\n") {
            l.insert(i + 1, b'\t');
        }
        lines.push(l);
    }
    // lines are non-empty and contain no CRLF by construction; an empty line would end the block
    lines.retain(|l| !l.is_empty());
    let term = s.below(3);
    c15_check_lines(&lines, term)?;
    // Encoding::try_from directly on a raw value
    let v = c15_value_for(&mut s, 6);
    let raw = if s.chance(20) { let mut b = v.clone().into_bytes(); b.push(0xff); b } else { v.clone().into_bytes() };
    let real_ok = Encoding::try_from(&raw).is_ok();
    let model_ok = match std::str::from_utf8(&raw) {
        Ok(t) => accept_encoding_fault(t).is_none(),
        Err(_) => false,
    };
    // (a value of nothing but whitespace reaches Encoding::try_from only through a direct call;
    // whether it counts as the empty value there is not laid down)
    let blank_but_not_empty = !raw.is_empty() && std::str::from_utf8(&raw).map(|t| t.trim().is_empty()).unwrap_or(false);
    if real_ok != model_ok && !blank_but_not_empty {
        return Err(Fail::new("C15:encoding", format!("Encoding::try_from(\"{}\") ok={} but identity rule says ok={}", esc(&raw), real_ok, model_ok)));
    }
    // labels
    let mut seen: BTreeMap<String, usize> = BTreeMap::new();
    for l in &lines {
        if let Ok(t) = std::str::from_utf8(l) {
            if let Some(i) = t.find(':') {
                *seen.entry(trim_ws(&t[..i]).to_ascii_lowercase()).or_insert(0) += 1;
            }
        }
    }
    if seen.values().any(|c| *c >= 2) {
        labels.push("duplicate_name");
    }
    for l in labels {
        obs.label(l);
    }
    obs.nontrivial = !obs.labels.is_empty();
    if obs.want_render {
        obs.render = format!("lines={:?} terminator={} encoding_probe=\"{}\"", lines.iter().map(|l| esc(l)).collect::<Vec<_>>(), term, esc(&raw));
    }
    Ok(())
}

/// curated lines for the exhaustive pair enumeration
fn c15_curated() -> Vec<Vec<u8>> {
    let mut v: Vec<Vec<u8>> = Vec::new();
    for t in [
        "Content-Length: 5", "content-length:7", "CONTENT-LENGTH: 0", "Content-Length: x", "Content-Length: +3", "Content-Length: 4294967296",
        "Accept: text/plain", "Accept: application/json", "accept: */*", "Accept:",
        "Content-Type: application/json", "Content-Type: image/png",
        "Expect: 100-continue", "Expect: 103-checkpoint", "eXPECT:100-continue",
        "Transfer-Encoding: chunked", "Transfer-Encoding: identity", "Transfer-Encoding: gzip",
        "Server: s", "Accept-Encoding: gzip", "Accept-Encoding: identity;q=0", "Accept-Encoding: *;q=0", "Accept-Encoding: *;q=0, identity", "Accept-Encoding:",
        "X-A: 1", "X-A: 2", "x-a: 3", " X-A : 4 ", "nocolon", "a:b:c", "\u{a0}Expect\u{3000}:\u{a0}100-continue\u{3000}", ": empty-name", "Content-Length\t:\t9\t",
    ] {
        v.push(t.as_bytes().to_vec());
    }
    v.push(b"X-A: \xff".to_vec());
    v.push(b"\xffContent-Length: 1".to_vec());
    v
}

/// params = [i, j, k(optional third, 0 = none), terminator]
fn c15_pairs(input: &Input, obs: &mut Obs) -> Result<(), Fail> {
    let p = input.params();
    let cur = c15_curated();
    let mut lines = vec![cur[p[0] as usize].clone(), cur[p[1] as usize].clone()];
    if p[2] > 0 {
        lines.push(cur[(p[2] - 1) as usize].clone());
    }
    c15_check_lines(&lines, p[3] as usize)?;
    obs.nontrivial = true;
    if obs.want_render {
        obs.render = format!("lines={:?} terminator={}", lines.iter().map(|l| esc(l)).collect::<Vec<_>>(), p[3]);
    }
    Ok(())
}

fn c15_pairs_enum(tier: Tier, shard: u64, nshards: u64, f: &mut dyn FnMut(&[u64]) -> bool) {
    let n = c15_curated().len() as u64;
    let mut c = 0u64;
    for i in 0..n {
        for j in 0..n {
            let kmax = if tier == Tier::Quick { 0 } else { n };
            for k in 0..=kmax {
                c += 1;
                if c % nshards != shard {
                    continue;
                }
                if !f(&[i, j, k, (i + j + k) % 3]) {
                    return;
                }
            }
        }
    }
}

/// every recognised name x every letter-case pattern (<= 2^10 for short names, sampled
/// deterministically for long ones) x paddings, with an accepted value: must be recognised.
/// params = [name index, case bits, pad index]
fn c15_cases(input: &Input, obs: &mut Obs) -> Result<(), Fail> {
    let p = input.params();
    let name = REC_NAMES[p[0] as usize];
    let bits = p[1];
    let styled: String = name
        .chars()
        .enumerate()
        .map(|(i, c)| if (bits >> i) & 1 == 1 { if c.is_ascii_lowercase() { c.to_ascii_uppercase() } else { c.to_ascii_lowercase() } } else { c })
        .collect();
    const PADS: [(&str, &str); 6] = [("", ""), (" ", ""), ("", "\t"), ("\u{a0}", "\u{3000}"), ("\r", "\n"), ("\u{2003}\u{85}", " ")];
    let (l, r) = PADS[p[2] as usize];
    // a value that changes observable state if (and only if) the name is recognised
    let val = match p[0] {
        0 => "17",
        1 => "text/plain",
        2 => "100-continue",
        3 => "chunked",
        4 => "zzz",
        5 => "application/json",
        _ => "identity;q=0",
    };
    let line = format!("{}{}{}:{}{}{}", l, styled, r, r, val, l).into_bytes();
    c15_check_lines(&[line.clone()], 0)?;
    // and directly: recognised means no custom entry is created
    let mut h = Headers::default();
    let res = h.parse_header_line(&line);
    if !h.custom_entries().is_empty() {
        return Err(Fail::new("C15:name-not-recognised", format!("line \"{}\" was stored as a custom header", esc(&line))));
    }
    if p[0] == 6 && res.is_ok() {
        return Err(Fail::new("C15:name-not-recognised", format!("line \"{}\" (identity excluded) was accepted", esc(&line))));
    }
    obs.nontrivial = bits != 0 || p[2] != 0;
    if obs.want_render {
        obs.render = format!("line=\"{}\"", esc(&line));
    }
    Ok(())
}

fn c15_cases_enum(tier: Tier, shard: u64, nshards: u64, f: &mut dyn FnMut(&[u64]) -> bool) {
    let mut c = 0u64;
    for (ni, name) in REC_NAMES.iter().enumerate() {
        let nletters = name.len() as u64;
        let all: u64 = 1 << nletters;
        let step = if all <= 1024 { 1 } else if tier == Tier::Quick { all / 1021 } else { all / 65521 };
        let mut bits = 0u64;
        while bits < all {
            for pad in 0..6u64 {
                c += 1;
                if c % nshards == shard && !f(&[ni as u64, bits, pad]) {
                    return;
                }
            }
            bits += step.max(1);
        }
    }
}

/// every number as a Content-Length value: params = [first n of a block of 512, spelling]
fn c15_numbers(input: &Input, obs: &mut Obs) -> Result<(), Fail> {
    let p = input.params();
    let mut cnt = 0u64;
    for n in p[0]..p[0] + 512 {
        let text = match p[1] {
            0 => format!("Content-Length: {}", n),
            1 => format!("content-length:{}", n),
            2 => format!("Content-Length: +{}", n),
            3 => format!("Content-Length: 0{}", n),
            _ => format!("Content-Length: -{}", n),
        };
        let line = text.into_bytes();
        // alone, and after an earlier acceptable value (last acceptable occurrence wins)
        c15_check_lines(&[line.clone()], 0)?;
        c15_check_lines(&[b"Content-Length: 7".to_vec(), line], 1)?;
        cnt += 2;
    }
    obs.extra_evals = cnt - 1;
    obs.extra_nontrivial = cnt;
    if obs.want_render {
        obs.render = format!("Content-Length values {}..{} in spelling #{}", p[0], p[0] + 511, p[1]);
    }
    Ok(())
}

fn c15_numbers_enum(tier: Tier, shard: u64, nshards: u64, f: &mut dyn FnMut(&[u64]) -> bool) {
    let mut c = 0u64;
    let max = if tier == Tier::Quick { 70_144 } else { 1_048_576 };
    for spelling in 0..5u64 {
        let mut start = 0u64;
        let top = if spelling == 0 { max } else { 4096 };
        while start < top {
            c += 1;
            if c % nshards == shard && !f(&[start, spelling]) {
                return;
            }
            start += 512;
        }
        for start in [(1u64 << 31) - 256, (1u64 << 32) - 256, (1u64 << 32) - 512, 999_999_744, 9_999_999_744, (1u64 << 63) - 256] {
            c += 1;
            if c % nshards == shard && !f(&[start, spelling]) {
                return;
            }
        }
    }
}

/// every single-byte substitution / insertion / deletion in every recognised header name:
/// params = [name index, op (0 substitute, 1 insert, 2 delete), position]; all 256 byte values inside
fn c15_name_edits(input: &Input, obs: &mut Obs) -> Result<(), Fail> {
    let p = input.params();
    let name = REC_NAMES[p[0] as usize].as_bytes();
    let pos = p[2] as usize;
    // a value that is observable if and only if the name is (still) recognised
    let val: &[u8] = match p[0] {
        0 => b"17",
        1 => b"bogus/type",
        2 => b"100-continue",
        3 => b"chunked",
        4 => b"zzz",
        5 => b"application/json",
        _ => b"identity;q=0",
    };
    let mut cnt = 0u64;
    let values: Vec<Option<u8>> = if p[1] == 2 { vec![None] } else { (0..=255u8).map(Some).collect() };
    for byte in values {
        let mut n = name.to_vec();
        match (p[1], byte) {
            (0, Some(b)) => n[pos] = b,
            (1, Some(b)) => n.insert(pos, b),
            _ => {
                n.remove(pos);
            }
        }
        let mut line = n.clone();
        line.extend_from_slice(b": ");
        line.extend_from_slice(val);
        // a substituted CR followed by ... cannot form CRLF here (names contain no LF), LF alone is fine
        if line.windows(2).any(|w| w == b"\r\n") {
            continue;
        }
        c15_check_lines(&[line.clone()], 0)?;
        c15_check_lines(&[b"X-First: 1".to_vec(), line], 1)?;
        cnt += 2;
    }
    obs.extra_evals = cnt.saturating_sub(1);
    obs.extra_nontrivial = cnt;
    if obs.want_render {
        obs.render = format!("name \"{}\" op {} at position {} x all 256 byte values", REC_NAMES[p[0] as usize], p[1], pos);
    }
    Ok(())
}

fn c15_name_edits_enum(_tier: Tier, shard: u64, nshards: u64, f: &mut dyn FnMut(&[u64]) -> bool) {
    let mut c = 0u64;
    for (ni, name) in REC_NAMES.iter().enumerate() {
        for op in 0..3u64 {
            let npos = if op == 1 { name.len() + 1 } else { name.len() };
            for pos in 0..npos as u64 {
                c += 1;
                if c % nshards == shard && !f(&[ni as u64, op, pos]) {
                    return;
                }
            }
        }
    }
}

/// the same rules seen through a connection: a generated header block is put behind a request
/// line (and in front of the body it declares), fed to an `HttpConnection` under a drawn read
/// schedule, and what the connection delivers or rejects is compared with the reference parser,
/// which applies the header rules to the whole block (last acceptable Content-Length, flags by
/// any occurrence, custom entries, fatal vs tolerated faults) and the payload limit to the final
/// Content-Length only
fn c15_conn(input: &Input, obs: &mut Obs) -> Result<(), Fail> {
    use crate::props::conn::{ref_bounds, run_focus, sched_from_src, F_C01};
    let mut s = Src::new(input.bytes());
    let n = s.below(7);
    let mut labels = Vec::new();
    let mut lines = Vec::new();
    for _ in 0..n {
        let mut l = c15_line(&mut s, &mut labels);
        while let Some(i) = l.windows(2).position(|w| w == b"\r\n") {
            l.insert(i + 1, b'\t');
        }
        if !l.is_empty() {
            lines.push(l);
        }
    }
    let limit = [None, None, Some(5usize), Some(100), Some(4096)][s.below(5)];
    let l_eff = limit.unwrap_or(DEFAULT_LIMIT);
    let mut stream = [&b"PUT /h HTTP/1.1\r\n"[..], b"PATCH /h HTTP/1.0\r\n", b"GET /h HTTP/1.1\r\n"][s.weighted(&[5, 3, 2])].to_vec();
    let mut model = RefHeaders::default();
    let mut fatal = false;
    for l in &lines {
        stream.extend_from_slice(l);
        stream.extend_from_slice(b"\r\n");
        if !fatal {
            if let LineClass::Fatal(_) = href_line(&mut model, l) {
                fatal = true;
            }
        }
    }
    stream.extend_from_slice(b"\r\n");
    if !fatal && (model.content_length as usize) <= l_eff && model.content_length <= 300 {
        stream.extend(filler(0, s.u8(), model.content_length as usize));
        obs.label("block_accepted_body_supplied");
    }
    if s.chance(128) {
        stream.extend_from_slice(b"GET /after HTTP/1.1\r\n\r\n");
    }
    let mut seen: BTreeMap<String, usize> = BTreeMap::new();
    for l in &lines {
        if let Ok(t) = std::str::from_utf8(l) {
            if let Some(i) = t.find(':') {
                *seen.entry(trim_ws(&t[..i]).to_ascii_lowercase()).or_insert(0) += 1;
            }
        }
    }
    if seen.get("content-length").copied().unwrap_or(0) >= 2 {
        labels.push("content_length_repeated");
    }
    let (reqs, end) = ref_parse(&stream, buf_size(), l_eff);
    let bounds = ref_bounds(&stream, &reqs);
    let r = {
        let mut sch = sched_from_src(&mut s, &stream, &bounds, 4);
        run_focus("C15", &F_C01, &stream, &reqs, &end, limit, false, &mut sch)?
    };
    let _ = r;
    for l in labels {
        obs.label(l);
    }
    obs.nontrivial = !obs.labels.is_empty();
    if obs.want_render {
        obs.render = format!("limit={:?} stream=\"{}\"", limit, esc(&stream));
    }
    Ok(())
}

fn c15_plan(tier: Tier) -> Vec<Job> {
    let q = tier == Tier::Quick;
    vec![
        Job { sub: "blocks", kind: JobKind::Pbt { cases: if q { 1_000_000 } else { 15_000_000 }, max_len: 160 }, smallbuf: false },
        Job { sub: "conn", kind: JobKind::Pbt { cases: if q { 200_000 } else { 4_000_000 }, max_len: 200 }, smallbuf: false },
        Job { sub: "pairs", kind: JobKind::Enum { f: c15_pairs_enum, bound: "all ordered pairs (thorough: triples) of 35 curated header lines x 3 block terminators" }, smallbuf: false },
        Job { sub: "numbers", kind: JobKind::Enum { f: c15_numbers_enum, bound: "every Content-Length value 0..70143 (thorough: 0..2^20-1) in the plain spelling, 0..4095 in four other spellings (no space, '+', leading zero, '-'), and blocks around 2^31, 2^32, 10^9, 10^10, 2^63" }, smallbuf: false },
        Job { sub: "name_edits", kind: JobKind::Enum { f: c15_name_edits_enum, bound: "every single-byte substitution (256 values), insertion (256 values) and deletion at every position of each of the 7 recognised names, as a line of its own and behind another line" }, smallbuf: false },
        Job { sub: "cases", kind: JobKind::Enum { f: c15_cases_enum, bound: "7 recognised names x every letter-case pattern (names <= 10 letters: all 2^n; longer: every k-th pattern) x 6 paddings" }, smallbuf: false },
    ]
}

pub fn c15() -> PropDef {
    PropDef {
        id: "C15",
        subs: vec![("blocks", c15_blocks), ("pairs", c15_pairs), ("cases", c15_cases), ("raw", crate::props::raw::c15_raw), ("numbers", c15_numbers), ("name_edits", c15_name_edits), ("conn", c15_conn)],
        plan: c15_plan,
        rule: "case = header block of 0..6 lines (recognised names in letter-case patterns and SP/HTAB/Unicode/CR/LF padding with supported/unsupported/malformed values, other names, 0/1/several colons, invalid UTF-8) plus one raw Accept-Encoding value; oracle = independent statement of the header rules, checked three ways (block vs rules, block vs line-by-line fold, per-line outcome class) + Encoding::try_from vs identity rule; non-trivial = a recognised name with non-canonical case or padding, a duplicate name, or a faulty line",
        assumptions: vec![
            "a header block handed to Headers::try_from has no bytes after its terminating empty line",
            "Content-Length accepts an optional leading '+' (DESIGN 2.2)",
        ],
        single_threaded_world: false,
    }
}

// =======================================================================================
// C16

fn c16_tokens(input: &Input, obs: &mut Obs) -> Result<(), Fail> {
    // params = [family, prefix...]; the sub enumerates all completions of the last two symbols
    let p = input.params();
    let fam = p[0];
    let alpha: &[u8] = match fam {
        0 => b"GETPUACHgetpu \0\xc3",
        1 => b"HTP/1.0htp \0\xc3",
        _ => b"texplain/jsoTJ \t\xc3",
    };
    let k = alpha.len() as u64;
    // p[1] = length (0..=5), p[2] = index of the prefix (all but the last two symbols)
    let len = p[1] as usize;
    let head = len.saturating_sub(2);
    let mut prefix = Vec::new();
    let mut x = p[2];
    for _ in 0..head {
        prefix.push(alpha[(x % k) as usize]);
        x /= k;
    }
    let tail = len - head;
    let total = k.pow(tail as u32);
    let mut count = 0u64;
    let mut nt = 0u64;
    for t in 0..total {
        let mut sbytes = prefix.clone();
        let mut y = t;
        for _ in 0..tail {
            sbytes.push(alpha[(y % k) as usize]);
            y /= k;
        }
        count += 1;
        if token_check(fam, &sbytes)? {
            nt += 1;
        }
    }
    obs.extra_evals = count.saturating_sub(1);
    obs.extra_nontrivial = nt;
    if obs.want_render {
        obs.render = format!("family={} all strings of length {} with prefix \"{}\"", ["method", "version", "media"][fam as usize], len, esc(&prefix));
        obs.nontrivial = false;
    }
    Ok(())
}

const CANON_METHOD: [&[u8]; 3] = [b"GET", b"PUT", b"PATCH"];
const CANON_VERSION: [&[u8]; 2] = [b"HTTP/1.0", b"HTTP/1.1"];
const CANON_MEDIA: [&[u8]; 2] = [b"text/plain", b"application/json"];

fn edit_distance_le1(a: &[u8], b: &[u8]) -> bool {
    if a == b {
        return true;
    }
    let (la, lb) = (a.len(), b.len());
    if la == lb {
        return a.iter().zip(b).filter(|(x, y)| x != y).count() <= 1;
    }
    let (s, l) = if la < lb { (a, b) } else { (b, a) };
    if l.len() - s.len() != 1 {
        return false;
    }
    let mut i = 0;
    while i < s.len() && s[i] == l[i] {
        i += 1;
    }
    s[i..] == l[i + 1..]
}

/// returns whether the input is "near" a canonical token (non-trivial)
fn token_check(fam: u64, b: &[u8]) -> Result<bool, Fail> {
    match fam {
        0 => {
            let want = CANON_METHOD.iter().position(|c| *c == b);
            let got = Method::try_from(b).ok().map(method_code);
            if got != want.map(|x| x as u8) {
                return Err(Fail::new("C16:method", format!("Method::try_from(\"{}\") = {:?}, canonical table says {:?}", esc(b), got, want)));
            }
            Ok(CANON_METHOD.iter().any(|c| edit_distance_le1(c, b)))
        }
        1 => {
            let want = CANON_VERSION.iter().position(|c| *c == b);
            let got = Version::try_from(b).ok().map(version_code);
            if got != want.map(|x| x as u8) {
                return Err(Fail::new("C16:version", format!("Version::try_from(\"{}\") = {:?}, canonical table says {:?}", esc(b), got, want)));
            }
            Ok(CANON_VERSION.iter().any(|c| edit_distance_le1(c, b)))
        }
        _ => {
            let want = match std::str::from_utf8(b) {
                Ok(t) => match trim_ws(t) {
                    "text/plain" => Some(Media::Plain),
                    "application/json" => Some(Media::Json),
                    _ => None,
                },
                Err(_) => None,
            };
            let got = MediaType::try_from(b).ok().map(media_code);
            if got != want {
                return Err(Fail::new("C16:media", format!("MediaType::try_from(\"{}\") = {:?}, canonical table says {:?}", esc(b), got, want)));
            }
            Ok(CANON_MEDIA.iter().any(|c| edit_distance_le1(c, b)) || want.is_some())
        }
    }
}

/// the same exactness where the tokens are used: a media type arriving in an Accept line, a
/// method or version in the request line of the SECOND request of a connection whose first
/// request used the canonical token with the same URI
fn token_check_ctx(fam: u64, b: &[u8]) -> Result<(), Fail> {
    use crate::props::conn::{run_focus, F_C01};
    match fam {
        2 => {
            let want = match std::str::from_utf8(b) {
                Ok(t) => match trim_ws(t) {
                    "text/plain" => Some(Media::Plain),
                    "application/json" => Some(Media::Json),
                    _ => None,
                },
                Err(_) => None,
            };
            for prefill in [Media::Plain, Media::Json] {
                let mut h = Headers::default();
                if prefill == Media::Json {
                    let _ = h.parse_header_line(b"Accept: application/json");
                }
                let mut line = b"Accept: ".to_vec();
                line.extend_from_slice(b);
                let _ = h.parse_header_line(&line);
                let got = media_code(h.accept());
                if got != want.unwrap_or(prefill) {
                    return Err(Fail::new("C16:media-in-header", format!("after \"Accept: {}\" on a view whose accept was {:?}: accept() = {:?}", esc(b), prefill, got)));
                }
            }
            Ok(())
        }
        _ => {
            let mut stream = b"GET /a HTTP/1.1\r\n\r\n".to_vec();
            if fam == 0 {
                stream.extend_from_slice(b);
                stream.extend_from_slice(b" /a HTTP/1.1\r\n\r\n");
            } else {
                stream.extend_from_slice(b"GET /a ");
                stream.extend_from_slice(b);
                stream.extend_from_slice(b"\r\n\r\n");
            }
            let (reqs, end) = ref_parse(&stream, buf_size(), DEFAULT_LIMIT);
            for mode in 0..2 {
                let first = 19usize;
                let mut sch = |consumed: usize, _t: usize, w: usize| ReadEv::Data { want: if mode == 0 { w.max(1) } else if consumed < first { first - consumed } else { w.max(1) }, fds: vec![] };
                let r = run_focus("C16", &F_C01, &stream, &reqs, &end, None, false, &mut sch)?;
                let _ = r;
            }
            Ok(())
        }
    }
}

fn c16_tokens_enum(_tier: Tier, shard: u64, nshards: u64, f: &mut dyn FnMut(&[u64]) -> bool) {
    let ks = [17u64, 14, 19];
    let mut c = 0u64;
    for fam in 0..3u64 {
        let k = ks[fam as usize];
        for len in 0..=5u64 {
            let head = len.saturating_sub(2);
            let nprefix = k.pow(head as u32);
            for pi in 0..nprefix {
                c += 1;
                if c % nshards == shard && !f(&[fam, len, pi]) {
                    return;
                }
            }
        }
    }
}

/// single-byte edits of every canonical token: params = [family, token, op(0 sub,1 del,2 ins), pos]
/// (the 256 byte values are enumerated inside)
fn c16_edits(input: &Input, obs: &mut Obs) -> Result<(), Fail> {
    let p = input.params();
    let fam = p[0];
    let tok: &[u8] = match fam {
        0 => CANON_METHOD[p[1] as usize],
        1 => CANON_VERSION[p[1] as usize],
        _ => CANON_MEDIA[p[1] as usize],
    };
    let pos = p[3] as usize;
    let mut n = 0u64;
    match p[2] {
        1 => {
            let mut v = tok.to_vec();
            v.remove(pos);
            token_check(fam, &v)?;
            token_check_ctx(fam, &v)?;
            n += 1;
        }
        op => {
            for byte in 0..=255u8 {
                let mut v = tok.to_vec();
                if op == 0 {
                    v[pos] = byte;
                } else {
                    v.insert(pos, byte);
                }
                token_check(fam, &v)?;
                token_check_ctx(fam, &v)?;
                n += 1;
            }
        }
    }
    obs.extra_evals = n - 1;
    obs.extra_nontrivial = n;
    if obs.want_render {
        obs.render = format!("token \"{}\" op={} pos={} x all 256 byte values", esc(tok), p[2], pos);
    }
    Ok(())
}

fn c16_edits_enum(_tier: Tier, shard: u64, nshards: u64, f: &mut dyn FnMut(&[u64]) -> bool) {
    let fams: [&[&[u8]]; 3] = [&CANON_METHOD, &CANON_VERSION, &CANON_MEDIA];
    let mut c = 0u64;
    for (fi, toks) in fams.iter().enumerate() {
        for (ti, t) in toks.iter().enumerate() {
            for op in 0..3u64 {
                let npos = if op == 2 { t.len() + 1 } else { t.len() };
                for pos in 0..npos {
                    c += 1;
                    if c % nshards == shard && !f(&[fi as u64, ti as u64, op, pos as u64]) {
                        return;
                    }
                }
            }
        }
    }
}

/// media types padded with 0..2 whitespace items on each side; round trips; status codes
fn c16_misc(_input: &Input, obs: &mut Obs) -> Result<(), Fail> {
    let ws: [&str; 8] = ["", " ", "\t", "\r", "\n", "\u{a0}", "\u{3000}", "\u{85}"];
    let mut n = 0u64;
    for (mi, m) in ["text/plain", "application/json"].iter().enumerate() {
        for a in ws {
            for b in ws {
                for c in ws {
                    for d in ws {
                        let s = format!("{}{}{}{}{}", a, b, m, c, d);
                        let got = MediaType::try_from(s.as_bytes()).ok().map(media_code);
                        let want = Some(if mi == 0 { Media::Plain } else { Media::Json });
                        n += 1;
                        if got != want {
                            return Err(Fail::new("C16:media-padding", format!("MediaType::try_from(\"{}\") = {:?}", esc(s.as_bytes()), got)));
                        }
                    }
                }
                // non-whitespace padding must reject
                for x in ["x", ";", "\u{200b}", "\0"] {
                    let s = format!("{}{}{}{}", a, x, m, b);
                    n += 1;
                    if MediaType::try_from(s.as_bytes()).is_ok() {
                        return Err(Fail::new("C16:media-padding", format!("MediaType::try_from(\"{}\") accepted", esc(s.as_bytes()))));
                    }
                }
            }
        }
    }
    // any amount of surrounding whitespace: every run length 0..=300 and a few long ones, per
    // kind and side; the same amount of non-trimmed padding around methods and versions rejects
    let lens: Vec<usize> = (0..=300).chain([511, 512, 1000, 1023, 1024, 1025, 4096, 70_000]).collect();
    for (mi, m) in ["text/plain", "application/json"].iter().enumerate() {
        let want = Some(if mi == 0 { Media::Plain } else { Media::Json });
        for w in &ws[1..] {
            for &k in &lens {
                if k > 5000 && w.len() > 1 {
                    continue;
                }
                let pad = w.repeat(k);
                for s in [format!("{}{}", pad, m), format!("{}{}", m, pad), format!("{}{}{}", pad, m, pad)] {
                    n += 1;
                    let got = MediaType::try_from(s.as_bytes()).ok().map(media_code);
                    if got != want {
                        return Err(Fail::new("C16:media-padding", format!("MediaType::try_from(\"{}\") = {:?}", esc(s.as_bytes()), got)));
                    }
                }
                if k >= 1 {
                    let s = format!("{}x{}", pad, m);
                    n += 1;
                    if MediaType::try_from(s.as_bytes()).is_ok() {
                        return Err(Fail::new("C16:media-padding", format!("MediaType::try_from(\"{}\") accepted", esc(s.as_bytes()))));
                    }
                }
            }
        }
    }
    for &k in &lens {
        if k == 0 {
            continue;
        }
        for w in [" ", "\t", "\0"] {
            let pad = w.repeat(k);
            for t in ["GET", "PUT", "PATCH"] {
                for s in [format!("{}{}", pad, t), format!("{}{}", t, pad)] {
                    n += 1;
                    if Method::try_from(s.as_bytes()).is_ok() {
                        return Err(Fail::new("C16:method", format!("Method::try_from(\"{}\") accepted", esc(s.as_bytes()))));
                    }
                }
            }
            for t in ["HTTP/1.0", "HTTP/1.1"] {
                for s in [format!("{}{}", pad, t), format!("{}{}", t, pad)] {
                    n += 1;
                    if Version::try_from(s.as_bytes()).is_ok() {
                        return Err(Fail::new("C16:version", format!("Version::try_from(\"{}\") accepted", esc(s.as_bytes()))));
                    }
                }
            }
        }
    }
    // a canonical token next to other content, separated by whitespace, is not the token
    for m in ["text/plain", "application/json"] {
        for w in [" ", "\t", "\n", "\u{a0}", "  "] {
            for junk in ["x", ";q=0", "text/plain", "application/json", "\0", ",", "*/*"] {
                for s in [format!("{}{}{}", m, w, junk), format!("{}{}{}", junk, w, m), format!(" {}{}{} ", m, w, junk)] {
                    n += 1;
                    if MediaType::try_from(s.as_bytes()).is_ok() {
                        return Err(Fail::new("C16:media-padding", format!("MediaType::try_from(\"{}\") accepted", esc(s.as_bytes()))));
                    }
                }
            }
        }
    }
    // round trips
    for m in [Method::Get, Method::Put, Method::Patch] {
        n += 1;
        if Method::try_from(m.raw()).ok() != Some(m) || m.to_str().as_bytes() != m.raw() {
            return Err(Fail::new("C16:roundtrip", format!("method {:?} does not round-trip", m)));
        }
    }
    for v in [Version::Http10, Version::Http11] {
        n += 1;
        if Version::try_from(v.raw()).ok() != Some(v) {
            return Err(Fail::new("C16:roundtrip", format!("version {:?} does not round-trip", v)));
        }
    }
    if Method::Get.raw() != b"GET" || Method::Put.raw() != b"PUT" || Method::Patch.raw() != b"PATCH" || Version::Http10.raw() != b"HTTP/1.0" || Version::Http11.raw() != b"HTTP/1.1" {
        return Err(Fail::new("C16:roundtrip", "canonical byte form of a method/version is not its documented spelling".into()));
    }
    for m in [MediaType::PlainText, MediaType::ApplicationJson] {
        n += 1;
        if MediaType::try_from(m.as_str().as_bytes()).ok() != Some(m) {
            return Err(Fail::new("C16:roundtrip", format!("media type {:?} does not round-trip", m)));
        }
    }
    if MediaType::PlainText.as_str() != "text/plain" || MediaType::ApplicationJson.as_str() != "application/json" {
        return Err(Fail::new("C16:roundtrip", "media type spelling".into()));
    }
    // status codes
    let mut seen = std::collections::BTreeSet::new();
    for (code, _) in STATUS.iter() {
        let raw = status_of(*code).raw();
        n += 1;
        if !raw.iter().all(|c| c.is_ascii_digit()) {
            return Err(Fail::new("C16:status", format!("status {} raw {:?} is not three digits", code, raw)));
        }
        let v: u16 = std::str::from_utf8(raw).unwrap().parse().unwrap();
        if v != *code {
            return Err(Fail::new("C16:status", format!("status {} serialises as {}", code, v)));
        }
        if !seen.insert(v) {
            return Err(Fail::new("C16:status", format!("two status codes share {}", v)));
        }
    }
    // the number on the wire: every status x version written through sinks that take at most k
    // bytes per call (k = 1..20, and unlimited), optionally interrupting the first call, is read
    // back by the independent reader as the same three-digit number
    struct Drip {
        out: Vec<u8>,
        k: usize,
        interrupt_first: bool,
    }
    impl Write for Drip {
        fn write(&mut self, buf: &[u8]) -> std::io::Result<usize> {
            if self.interrupt_first {
                self.interrupt_first = false;
                return Err(std::io::Error::from(std::io::ErrorKind::Interrupted));
            }
            let t = buf.len().min(self.k);
            self.out.extend_from_slice(&buf[..t]);
            Ok(t)
        }
        fn flush(&mut self) -> std::io::Result<()> {
            Ok(())
        }
    }
    for (code, _) in STATUS.iter() {
        for v in 0..2u8 {
            for k in (1..=20usize).chain([usize::MAX]) {
                for interrupt_first in [false, true] {
                    // the status given at construction is the one on the wire, whatever is done to
                    // the response afterwards (body set, replaced by an empty one, length removed)
                    let mut resp = Response::new(version_of(v), status_of(*code));
                    match k.wrapping_add(interrupt_first as usize) % 4 {
                        1 => resp.set_body(Body::new("x")),
                        2 => {
                            resp.set_body(Body::new("some text"));
                            resp.set_body(Body::new(""));
                        }
                        3 => {
                            resp.set_body(Body::new("{}"));
                            resp.set_content_type(MediaType::PlainText);
                        }
                        _ => {}
                    }
                    if resp.status() != status_of(*code) {
                        return Err(Fail::new("C16:status", format!("a response created with status {} reports {:?}", code, resp.status())));
                    }
                    // a write of some other response into a sink that breaks part-way comes first:
                    // nothing of it may show in what is written next
                    {
                        let other = Response::new(version_of(1 - v), status_of(STATUS[(k.wrapping_add(3)) % STATUS.len()].0));
                        let mut broken = FailSink { out: Vec::new(), room: k.wrapping_mul(7) % 40, chunk: 1 + k % 9 };
                        let _ = other.write_all(&mut broken);
                    }
                    let mut sink = Drip { out: Vec::new(), k, interrupt_first };
                    n += 1;
                    if let Err(e) = resp.write_all(&mut sink) {
                        return Err(Fail::new("C16:status", format!("writing status {} through a sink taking {} bytes per call failed: {}", code, k, e)));
                    }
                    let (rs, end) = rr_parse(&sink.out);
                    if end != RrEnd::Clean || rs.len() != 1 || rs[0].code != *code || rs[0].version != v {
                        return Err(Fail::new("C16:status", format!("status {} (HTTP/1.{}) written through a sink taking {} bytes per call reads back as \"{}\"", code, v, k, esc(&sink.out[..sink.out.len().min(40)]))));
                    }
                }
            }
        }
    }
    obs.extra_evals = n - 1;
    obs.extra_nontrivial = n;
    obs.render = "media types x 0..2 whitespace items each side (8 kinds) + non-whitespace padding; whitespace runs of every length 0..300 and up to 70000 on either or both sides; padded methods/versions; round trips; 11 status codes".into();
    Ok(())
}

fn c16_misc_enum(_tier: Tier, shard: u64, _nshards: u64, f: &mut dyn FnMut(&[u64]) -> bool) {
    if shard == 0 {
        f(&[0]);
    }
}

const URI_ALPHA: [&str; 9] = ["h", "t", "p", ":", "/", "a", ".", "%", "\u{e9}"];

fn uri_check(uri: &str) -> Result<bool, Fail> {
    let mut req = Vec::with_capacity(uri.len() + 20);
    req.extend_from_slice(b"GET ");
    req.extend_from_slice(uri.as_bytes());
    req.extend_from_slice(b" HTTP/1.1\r\n\r\n");
    match Request::try_from(&req, None) {
        Ok(r) => {
            let got = r.uri().get_abs_path();
            let want = ref_abs_path(uri);
            if got != want {
                return Err(Fail::new("C16:abs-path", format!("get_abs_path of \"{}\" = \"{}\", reference = \"{}\"", uri, got, want)));
            }
            if !(got.is_empty() || (got.starts_with('/') && uri.ends_with(got))) {
                return Err(Fail::new("C16:abs-path-invariant", format!("get_abs_path of \"{}\" = \"{}\" is neither empty nor a '/'-prefixed suffix", uri, got)));
            }
            Ok(uri.contains('/'))
        }
        Err(e) => {
            // (no statement obliges the one-shot parser to take a request line beyond the line
            // limit: there is then no URI object to judge)
            if uri.is_empty() || req.len() - 2 > 1024 {
                Ok(false)
            } else {
                Err(Fail::new("C16:uri-rejected", format!("URI \"{}\" rejected by the one-shot parser: {:?}", uri, e)))
            }
        }
    }
}

/// params = [length, prefix index]; enumerates the last 4 symbols inside
fn c16_uris(input: &Input, obs: &mut Obs) -> Result<(), Fail> {
    let p = input.params();
    let len = p[0] as usize;
    let head = len.saturating_sub(4);
    let mut prefix = String::new();
    let mut x = p[1];
    for _ in 0..head {
        prefix.push_str(URI_ALPHA[(x % 9) as usize]);
        x /= 9;
    }
    let tail = len - head;
    let total = 9u64.pow(tail as u32);
    let mut nt = 0u64;
    let mut u = String::with_capacity(32);
    for t in 0..total {
        u.clear();
        u.push_str(&prefix);
        let mut y = t;
        for _ in 0..tail {
            u.push_str(URI_ALPHA[(y % 9) as usize]);
            y /= 9;
        }
        if uri_check(&u)? {
            nt += 1;
        }
    }
    obs.extra_evals = total - 1;
    obs.extra_nontrivial = nt;
    if obs.want_render {
        obs.render = format!("all URIs of {} symbols over {{h,t,p,:,/,a,.,%,e-acute}} with prefix \"{}\"", len, prefix);
    }
    Ok(())
}

fn c16_uris_enum(tier: Tier, shard: u64, nshards: u64, f: &mut dyn FnMut(&[u64]) -> bool) {
    let maxlen = if tier == Tier::Quick { 7 } else { 9 };
    let mut c = 0u64;
    for len in 0..=maxlen as u64 {
        let head = len.saturating_sub(4);
        for pi in 0..9u64.pow(head as u32) {
            c += 1;
            if c % nshards == shard && !f(&[len, pi]) {
                return;
            }
        }
    }
}

/// absolute form: "http://" + every string of <= k symbols. params = [suffix length, prefix index]
fn c16_uris_abs(input: &Input, obs: &mut Obs) -> Result<(), Fail> {
    let p = input.params();
    let len = p[0] as usize;
    let head = len.saturating_sub(3);
    let mut prefix = String::from("http://");
    let mut x = p[1];
    for _ in 0..head {
        prefix.push_str(URI_ALPHA[(x % 9) as usize]);
        x /= 9;
    }
    let tail = len - head;
    let total = 9u64.pow(tail as u32);
    let mut nt = 0u64;
    let mut u = String::with_capacity(48);
    for t in 0..total {
        u.clear();
        u.push_str(&prefix);
        let mut y = t;
        for _ in 0..tail {
            u.push_str(URI_ALPHA[(y % 9) as usize]);
            y /= 9;
        }
        if uri_check(&u)? {
            nt += 1;
        }
    }
    obs.extra_evals = total - 1;
    obs.extra_nontrivial = nt;
    if obs.want_render {
        obs.render = format!("all URIs \"{}\" + {} more symbols", prefix, tail);
    }
    Ok(())
}

fn c16_uris_abs_enum(tier: Tier, shard: u64, nshards: u64, f: &mut dyn FnMut(&[u64]) -> bool) {
    let maxlen = if tier == Tier::Quick { 6 } else { 8 };
    let mut c = 0u64;
    for len in 0..=maxlen as u64 {
        let head = len.saturating_sub(3);
        for pi in 0..9u64.pow(head as u32) {
            c += 1;
            if c % nshards == shard && !f(&[len, pi]) {
                return;
            }
        }
    }
}

/// long URIs: lengths around powers of two. params = [shape, length of the filler run]
fn c16_uri_long(input: &Input, obs: &mut Obs) -> Result<(), Fail> {
    let p = input.params();
    let k = p[1] as usize;
    let fill = "a".repeat(k);
    let uri = match p[0] {
        0 => format!("http://{}/x", fill),
        1 => format!("http://{}", fill),
        2 => format!("/{}", fill),
        3 => format!("{}/x", fill),
        _ => format!("http://h/{}/y", fill),
    };
    obs.nontrivial = uri_check(&uri)?;
    if obs.want_render {
        obs.render = format!("shape {} with a run of {} bytes (URI of {} bytes)", p[0], k, uri.len());
    }
    Ok(())
}

fn c16_uri_long_enum(tier: Tier, shard: u64, nshards: u64, f: &mut dyn FnMut(&[u64]) -> bool) {
    let mut c = 0u64;
    let mut ks: Vec<u64> = (0..=300).collect();
    for center in [1u64 << 10, 1 << 12, 1 << 15, 1 << 16, 1 << 17] {
        let w = if tier == Tier::Quick { 20 } else { 64 };
        ks.extend(center - w..=center + w);
    }
    if tier == Tier::Thorough {
        ks.extend((1u64 << 20) - 12..=(1u64 << 20) + 12);
    }
    for shape in 0..5u64 {
        for k in &ks {
            c += 1;
            if c % nshards == shard && !f(&[shape, *k]) {
                return;
            }
        }
    }
}

/// random longer URIs
fn c16_uri_random(input: &Input, obs: &mut Obs) -> Result<(), Fail> {
    let mut s = Src::new(input.bytes());
    let n = s.range(1, 40);
    let parts = ["http://", "http:/", "/", "//", "a", "host", ":80", ".", "%2F", "\u{e9}", "?q=/", "#", "HTTP://", "https://", "h", "t", "p", ":"];
    // characters that are whitespace to `str::trim` but not separators of the request line
    let blanks = ["\t", "\u{b}", "\u{c}", "\u{85}", "\u{a0}", "\u{2003}", "\u{3000}", "\r"];
    let mut u = String::new();
    if s.chance(40) {
        u.push_str(blanks[s.below(blanks.len())]);
        obs.label("blank_at_the_start_of_the_uri");
    }
    for _ in 0..n {
        if s.chance(10) {
            u.push_str(blanks[s.below(blanks.len())]);
        }
        u.push_str(parts[s.below(parts.len())]);
    }
    if s.chance(40) {
        u.push_str(blanks[s.below(blanks.len())]);
        obs.label("blank_at_the_end_of_the_uri");
    }
    obs.nontrivial = uri_check(&u)?;
    if u.starts_with("http://") {
        obs.label("absolute_form");
    }
    if obs.want_render {
        obs.render = format!("uri=\"{}\" abs_path=\"{}\"", u, ref_abs_path(&u));
    }
    Ok(())
}

fn c16_plan(tier: Tier) -> Vec<Job> {
    let q = tier == Tier::Quick;
    vec![
        Job { sub: "tokens", kind: JobKind::Enum { f: c16_tokens_enum, bound: "all byte strings of length <= 5 over: method {G,E,T,P,U,A,C,H,g,e,t,p,u,SP,NUL,0xC3}, version {H,T,P,/,1,.,0,h,t,p,SP,NUL,0xC3}, media {t,e,x,p,l,a,i,n,/,j,s,o,T,J,SP,HTAB,0xC3}" }, smallbuf: false },
        Job { sub: "edits", kind: JobKind::Enum { f: c16_edits_enum, bound: "every single-byte substitution (256 values), deletion and insertion (256 values) at every position of every canonical token" }, smallbuf: false },
        Job { sub: "misc", kind: JobKind::Enum { f: c16_misc_enum, bound: "media types with 0..2 of 8 whitespace kinds on each side; round trips of all values; all 11 status codes" }, smallbuf: false },
        Job { sub: "uris", kind: JobKind::Enum { f: c16_uris_enum, bound: if q { "all URIs of <= 7 symbols over {h,t,p,:,/,a,.,%,U+00E9}" } else { "all URIs of <= 9 symbols over {h,t,p,:,/,a,.,%,U+00E9}" } }, smallbuf: false },
        Job { sub: "uris_abs", kind: JobKind::Enum { f: c16_uris_abs_enum, bound: if q { "\"http://\" followed by every string of <= 6 symbols over the same alphabet" } else { "\"http://\" followed by every string of <= 8 symbols over the same alphabet" } }, smallbuf: false },
        Job { sub: "uri_long", kind: JobKind::Enum { f: c16_uri_long_enum, bound: "5 URI shapes x filler runs of every length 0..300 and +-20 (thorough +-64) around 2^10, 2^12, 2^15, 2^16, 2^17 (thorough also 2^20)" }, smallbuf: false },
        Job { sub: "uri_random", kind: JobKind::Pbt { cases: if q { 300_000 } else { 5_000_000 }, max_len: 48 }, smallbuf: false },
    ]
}

pub fn c16() -> PropDef {
    PropDef {
        id: "C16",
        subs: vec![("tokens", c16_tokens), ("edits", c16_edits), ("misc", c16_misc), ("uris", c16_uris), ("uris_abs", c16_uris_abs), ("uri_long", c16_uri_long), ("uri_random", c16_uri_random)],
        plan: c16_plan,
        rule: "bounded-exhaustive: every string of the stated alphabets/lengths and every single-byte edit of every canonical token is evaluated once against the canonical-spelling table; URIs against the reference absolute-path function and the suffix invariant; non-trivial = input within edit distance 1 of a canonical token (or accepted), or a URI containing '/'; cases are distinct by construction (each enumerated once)",
        assumptions: vec!["URIs are reached through Request::try_from(b\"GET <uri> HTTP/1.1\\r\\n\\r\\n\").uri() (Uri has no public constructor)"],
        single_threaded_world: false,
    }
}

// =======================================================================================
// C17

struct Rec {
    id: usize,
    log: Arc<Mutex<Vec<(usize, u32)>>>,
}

impl EndpointHandler<u32> for Rec {
    fn handle_request(&self, _req: &Request, arg: &u32) -> Response {
        self.log.lock().unwrap().push((self.id, *arg));
        let codes = [200u16, 204, 401, 405, 501];
        let mut r = Response::new(Version::Http10, status_of(codes[self.id % codes.len()]));
        r.set_body(micro_http::Body::new(format!("handler-{}", self.id)));
        r.set_content_type(MediaType::PlainText);
        r.set_server("handler-own-server");
        r
    }
}

const PATHS: [&str; 16] = ["", "/", "/a", "/a/", "/a/b", "/ab", "/a:b", ":", "/GET:/a", "/api/a", "/fwd/http://up/a", "/\u{e9}/a", "//a", "/a/:id", "/a/7", "/:p/b"];
const PREFIXES: [&str; 5] = ["", "/api", "/a", "/api/", "/"];

thread_local! {
    /// header blocks for the requests of the next `c17_run` (by request index; none when empty)
    static C17_HEADERS: std::cell::RefCell<Vec<String>> = std::cell::RefCell::new(Vec::new());
}

fn c17_run(prefix: &str, regs: &[(u8, usize)], reqs: &[(u8, String)], server_id: &str) -> Result<(usize, usize, usize), Fail> {
    let hdrs: Vec<String> = C17_HEADERS.with(|c| std::mem::take(&mut *c.borrow_mut()));
    let log = Arc::new(Mutex::new(Vec::new()));
    let mut router: HttpRoutes<u32> = HttpRoutes::new(server_id.to_string(), prefix.to_string());
    let mut model: BTreeMap<(u8, String), usize> = BTreeMap::new();
    let mut dup = 0;
    for (i, (m, pi)) in regs.iter().enumerate() {
        let path = PATHS[*pi];
        let key = (*m, format!("{}{}", prefix, path));
        let r = router.add_route(method_of(*m), path.to_string(), Box::new(Rec { id: i, log: log.clone() }));
        let vacant = !model.contains_key(&key);
        if r.is_ok() != vacant {
            return Err(Fail::new("C17:add-route", format!("add_route({:?}, {:?}) with prefix {:?} returned {} but the key was {}", method_of(*m), path, prefix, if r.is_ok() { "Ok" } else { "Err" }, if vacant { "vacant" } else { "occupied" })));
        }
        if vacant {
            model.insert(key, i);
        } else {
            dup += 1;
        }
    }
    let mut hits = 0;
    let mut misses = 0;
    for (k, (m, uri)) in reqs.iter().enumerate() {
        let bytes = format!("{} {} HTTP/1.1\r\n{}\r\n", std::str::from_utf8(METHODS[*m as usize]).unwrap(), uri, hdrs.get(k).map(|h| h.as_str()).unwrap_or(""));
        let req = match Request::try_from(bytes.as_bytes(), None) {
            Ok(r) => r,
            Err(_) => continue,
        };
        let arg = 1000 + k as u32;
        log.lock().unwrap().clear();
        let resp = router.handle_http_request(&req, &arg);
        let calls = log.lock().unwrap().clone();
        let abs = ref_abs_path(uri).to_string();
        let want = model.get(&(*m, abs.clone())).copied();
        match want {
            Some(id) => {
                hits += 1;
                if calls != vec![(id, arg)] {
                    return Err(Fail::new("C17:dispatch", format!("request {} {:?} (abs path {:?}): invoked {:?}, expected exactly handler {} with the caller's argument", m, uri, abs, calls, id)));
                }
                let codes = [200u16, 204, 401, 405, 501];
                if resp.status() != status_of(codes[id % codes.len()]) || resp.body().map(|b| b.raw().to_vec()) != Some(format!("handler-{}", id).into_bytes()) {
                    return Err(Fail::new("C17:response", format!("response is not the one handler {} returned", id)));
                }
            }
            None => {
                misses += 1;
                if !calls.is_empty() {
                    return Err(Fail::new("C17:dispatch", format!("request {} {:?} (abs path {:?}) matches no route but handler(s) {:?} ran", m, uri, abs, calls)));
                }
                if resp.status() != StatusCode::NotFound {
                    return Err(Fail::new("C17:not-found", format!("no route for {} {:?} but status is {:?}", m, uri, resp.status())));
                }
            }
        }
        if resp.content_type() != MediaType::ApplicationJson {
            return Err(Fail::new("C17:stamp", "content type is not application/json".into()));
        }
        let mut out = Vec::new();
        resp.write_all(&mut out).map_err(|e| Fail::new("C17:write", format!("{}", e)))?;
        let (rs, end) = rr_parse(&out);
        if end != RrEnd::Clean || rs.len() != 1 {
            return Err(Fail::new("C17:stamp", format!("router response does not parse: {:?}", end)));
        }
        if rs[0].header("Server") != Some(server_id) {
            return Err(Fail::new("C17:stamp", format!("Server header {:?} != configured identity {:?}", rs[0].header("Server"), server_id)));
        }
        if rs[0].header("Content-Length").is_some() && rs[0].header("Content-Type") != Some("application/json") {
            return Err(Fail::new("C17:stamp", format!("Content-Type {:?}", rs[0].header("Content-Type"))));
        }
    }
    Ok((hits, misses, dup))
}

fn c17_uri_for(s: &mut Src, prefix: &str) -> String {
    let path = PATHS[s.below(PATHS.len())];
    let with_prefix = !s.chance(60);
    let p = if with_prefix { format!("{}{}", prefix, path) } else { path.to_string() };
    match s.weighted(&[10, 5, 2, 2, 2]) {
        0 => {
            if p.is_empty() { "/".into() } else { p }
        }
        1 => format!("http://host{}", p),
        4 => format!("http://h\u{e9}st.\u{4f8b}{}", p),
        2 => format!("http://host:8080{}", p),
        _ => ["*", "x", "http://", "http://host", "a/b"][s.below(5)].to_string(),
    }
}

fn c17_tables(input: &Input, obs: &mut Obs) -> Result<(), Fail> {
    let mut s = Src::new(input.bytes());
    let prefix = PREFIXES[s.below(PREFIXES.len())];
    let nreg = s.below(9);
    let regs: Vec<(u8, usize)> = (0..nreg).map(|_| (s.below(3) as u8, s.below(PATHS.len()))).collect();
    let nreq = s.range(1, 6);
    let reqs: Vec<(u8, String)> = (0..nreq).map(|_| (s.below(3) as u8, c17_uri_for(&mut s, prefix))).collect();
    // the identity is an arbitrary string: fixed ones, or 0..12 characters over an alphabet with
    // HTAB, other control characters, spaces at the ends, ':' and non-ASCII (never CR LF in
    // sequence, which would end the header line and make the stamp unobservable)
    let sid_owned: String;
    let sid: &str = if s.chance(200) {
        // (among them the identity a response carries by default)
        ["Mock_Server", "", "id with spaces", "\u{e9}", "Firecracker API", "handler-own-server"][s.weighted(&[10, 1, 2, 1, 4, 1])]
    } else {
        const ALPHA: [&str; 20] = ["a", "Z", "0", "-", "_", "/", ".", " ", "\t", ":", ": ", "\u{1}", "\u{7f}", "\u{b}", "\r", "\n", "\u{e9}", "\u{a0}", "\u{3000}", "\0"];
        let n = s.below(13);
        let mut t = String::new();
        for _ in 0..n {
            t.push_str(ALPHA[s.weighted(&[8, 4, 4, 3, 2, 3, 3, 5, 5, 3, 2, 2, 2, 2, 1, 1, 2, 2, 1, 1])]);
        }
        sid_owned = t.replace("\r\n", "\r \n");
        obs.label("generated_identity");
        if sid_owned.chars().any(|c| c.is_control()) {
            obs.label("identity_with_control_characters");
        }
        &sid_owned
    };
    // now and then the requests carry header fields: only the method and the path decide
    if s.chance(90) {
        const NAMES: [&str; 14] = ["X-HTTP-Method-Override", "X-HTTP-Method", "X-Method-Override", "X-Original-URL", "X-Rewrite-URL", "X-Forwarded-Prefix", "X-Forwarded-Host", "Host", "Content-Location", "Accept", "Content-Type", "Server", "Connection", "X-Script-Name"];
        let mut hs = Vec::new();
        for _ in 0..reqs.len() {
            let mut h = String::new();
            for _ in 0..s.range(1, 2) {
                let n = NAMES[s.below(NAMES.len())];
                let v = match s.below(5) {
                    0 => ["GET", "PUT", "PATCH", "patch", "DELETE"][s.below(5)].to_string(),
                    1 => format!("{}{}", prefix, PATHS[s.below(PATHS.len())]),
                    2 => PREFIXES[s.below(PREFIXES.len())].to_string(),
                    3 => ["application/json", "text/plain", "close", "host"][s.below(4)].to_string(),
                    _ => format!("http://other{}", PATHS[s.below(PATHS.len())]),
                };
                h.push_str(&format!("{}: {}\r\n", n, v));
            }
            hs.push(h);
        }
        C17_HEADERS.with(|c| *c.borrow_mut() = hs);
        obs.label("requests_with_header_fields");
    }
    let (hits, misses, dup) = c17_run(prefix, &regs, &reqs, sid)?;
    if hits > 0 {
        obs.label("hit");
    }
    if misses > 0 {
        obs.label("miss");
    }
    if dup > 0 {
        obs.label("duplicate_registration");
    }
    let shares = regs.iter().enumerate().any(|(i, a)| regs.iter().skip(i + 1).any(|b| (a.0 == b.0) != (a.1 == b.1) || PATHS[a.1].starts_with(PATHS[b.1]) || PATHS[b.1].starts_with(PATHS[a.1])));
    if shares {
        obs.label("routes_share_path_or_method_or_prefix");
    }
    obs.nontrivial = regs.len() >= 2 && (shares || dup > 0) && (hits > 0 || misses > 0);
    if obs.want_render {
        obs.render = format!("prefix={:?} routes={:?} requests={:?} server_id={:?}", prefix, regs.iter().map(|(m, p)| (*m, PATHS[*p])).collect::<Vec<_>>(), reqs, sid);
    }
    Ok(())
}

/// params = [prefix, r1m, r1p, r2m, r2p, r3m, r3p (p = PATHS.len() means absent)] ; all requests over the alphabet are tried inside
fn c17_small(input: &Input, obs: &mut Obs) -> Result<(), Fail> {
    let p = input.params();
    let prefix = PREFIXES[p[0] as usize];
    let mut regs = Vec::new();
    for i in 0..3 {
        let pi = p[2 + 2 * i] as usize;
        if pi < PATHS.len() {
            regs.push((p[1 + 2 * i] as u8, pi));
        }
    }
    let mut reqs = Vec::new();
    for m in 0..3u8 {
        for path in PATHS.iter() {
            for form in 0..4 {
                for wp in 0..2 {
                    let pp = if wp == 0 { format!("{}{}", prefix, path) } else { path.to_string() };
                    let uri = match form {
                        0 => pp,
                        1 => format!("http://h{}", pp),
                        2 => format!("http://h:1{}", pp),
                        _ => format!("http://\u{e9}\u{4f8b}{}", pp),
                    };
                    if uri.is_empty() {
                        continue;
                    }
                    reqs.push((m, uri));
                }
            }
        }
    }
    let n = reqs.len() as u64;
    c17_run(prefix, &regs, &reqs, "Mock_Server")?;
    obs.extra_evals = n - 1;
    obs.extra_nontrivial = if regs.len() >= 2 { n } else { 0 };
    if obs.want_render {
        obs.render = format!("prefix={:?} routes={:?} x all {} requests of the alphabet", prefix, regs.iter().map(|(m, p)| (*m, PATHS[*p])).collect::<Vec<_>>(), n);
    }
    Ok(())
}

fn c17_small_enum(tier: Tier, shard: u64, nshards: u64, f: &mut dyn FnMut(&[u64]) -> bool) {
    let np = PATHS.len() as u64;
    let mut c = 0u64;
    let third: Vec<(u64, u64)> = if tier == Tier::Quick { vec![(0, np)] } else { (0..3).flat_map(|m| (0..=np).map(move |p| (m, p))).collect() };
    for pre in 0..PREFIXES.len() as u64 {
        for m1 in 0..3 {
            for p1 in 0..np {
                for m2 in 0..3 {
                    for p2 in 0..=np {
                        for (m3, p3) in &third {
                            c += 1;
                            if c % nshards == shard && !f(&[pre, m1, p1, m2, p2, *m3, *p3]) {
                                return;
                            }
                        }
                    }
                }
            }
        }
    }
}

/// paths of every length: params = [first length of a block of 8]
fn c17_long(input: &Input, obs: &mut Obs) -> Result<(), Fail> {
    let p = input.params();
    let mut cnt = 0u64;
    for len in p[0]..p[0] + 8 {
        let len = len as usize;
        // the last character of the path is ASCII, a two-byte or a three-byte one: every byte offset
        // of the absolute path is straddled by a multi-byte character for some length
        for tail in ["p", "\u{e9}", "\u{4e2d}"] {
        if len < 1 + tail.len() {
            continue;
        }
        let base = format!("/{}{}", "p".repeat(len - 1 - tail.len()), tail);
        for (pi, prefix) in ["", "/api/v1"].iter().enumerate() {
            let log = Arc::new(Mutex::new(Vec::new()));
            let mut router: HttpRoutes<u32> = HttpRoutes::new("S".to_string(), prefix.to_string());
            // three sibling routes that differ only at or after position `len`
            let paths = [base.clone(), format!("{}x", base), format!("{}/y", base)];
            for (i, path) in paths.iter().enumerate() {
                let m = method_of(((i + pi) % 3) as u8);
                if router.add_route(m, path.clone(), Box::new(Rec { id: i, log: log.clone() })).is_err() {
                    return Err(Fail::new("C17:add-route", format!("distinct route #{} of length {} refused", i, path.len())));
                }
            }
            let probes = [base.clone(), format!("{}x", base), format!("{}/y", base), format!("{}z", base), format!("{}xx", base), base[..base.len() - tail.len()].to_string()];
            for (k, probe) in probes.iter().enumerate() {
                for mi in 0..3u8 {
                    for form in 0..2 {
                        let uri = if form == 0 { format!("{}{}", prefix, probe) } else { format!("http://h{}{}", prefix, probe) };
                        if uri.is_empty() || uri.len() > 900 {
                            continue;
                        }
                        let bytes = format!("{} {} HTTP/1.1\r\n\r\n", std::str::from_utf8(METHODS[mi as usize]).unwrap(), uri);
                        let req = match Request::try_from(bytes.as_bytes(), None) {
                            Ok(r) => r,
                            Err(_) => continue,
                        };
                        log.lock().unwrap().clear();
                        let resp = router.handle_http_request(&req, &(k as u32));
                        let calls = log.lock().unwrap().clone();
                        let want = paths.iter().position(|x| x == probe).filter(|i| ((i + pi) % 3) as u8 == mi);
                        cnt += 1;
                        match want {
                            Some(id) => {
                                if calls != vec![(id, k as u32)] {
                                    return Err(Fail::new("C17:dispatch", format!("path of {} bytes (prefix {:?}), probe #{} method {}: invoked {:?}, expected handler {}", probe.len(), prefix, k, mi, calls, id)));
                                }
                            }
                            None => {
                                if !calls.is_empty() || resp.status() != StatusCode::NotFound {
                                    return Err(Fail::new("C17:dispatch", format!("path of {} bytes (prefix {:?}), probe #{} method {} matches no route: invoked {:?}, status {:?}", probe.len(), prefix, k, mi, calls, resp.status())));
                                }
                            }
                        }
                    }
                }
            }
        }
        }
    }
    obs.extra_evals = cnt.saturating_sub(1);
    obs.extra_nontrivial = cnt;
    if obs.want_render {
        obs.render = format!("three sibling routes on paths of every length {}..{} (with and without a prefix) x 6 probe paths x 3 methods x 2 URI forms", p[0], p[0] + 7);
    }
    Ok(())
}

fn c17_long_enum(tier: Tier, shard: u64, nshards: u64, f: &mut dyn FnMut(&[u64]) -> bool) {
    let max = if tier == Tier::Quick { 400 } else { 880 };
    let mut c = 0u64;
    let mut start = 2u64;
    while start < max {
        c += 1;
        if c % nshards == shard && !f(&[start]) {
            return;
        }
        start += 8;
    }
}

/// absolute-form requests with an authority of `alen` bytes: the path behind it is dispatched
/// like the same path in origin form. params = [alen]
fn c17_authority(input: &Input, obs: &mut Obs) -> Result<(), Fail> {
    let alen = input.params()[0] as usize;
    let mut cnt = 0u64;
    for (pi, prefix) in ["", "/api"].iter().enumerate() {
        let log = Arc::new(Mutex::new(Vec::new()));
        let mut router: HttpRoutes<u32> = HttpRoutes::new("S".to_string(), prefix.to_string());
        let paths = ["/real", "/", "/h", "/real/x"];
        for (i, path) in paths.iter().enumerate() {
            if router.add_route(method_of(0), path.to_string(), Box::new(Rec { id: i, log: log.clone() })).is_err() {
                return Err(Fail::new("C17:add-route", format!("distinct route {:?} refused", path)));
            }
        }
        for fill in ["h", "\u{e9}"] {
            if alen % fill.len() != 0 {
                continue;
            }
            let authority = fill.repeat(alen / fill.len());
            for (k, probe) in ["/real", "/", "/h", "/real/x", "/none", ""].iter().enumerate() {
                let uri = format!("http://{}{}{}", authority, if probe.is_empty() { "" } else { prefix }, probe);
                let bytes = format!("GET {} HTTP/1.1\r\n\r\n", uri);
                let req = match Request::try_from(bytes.as_bytes(), None) {
                    Ok(r) => r,
                    // (only within the line limit is the one-shot parser obliged to take the request)
                    Err(_) if bytes.len() - 2 > 1024 => continue,
                    Err(e) => return Err(Fail::new("C17:request", format!("absolute-form request with an authority of {} bytes rejected: {:?}", alen, e))),
                };
                log.lock().unwrap().clear();
                let resp = router.handle_http_request(&req, &(k as u32));
                let calls = log.lock().unwrap().clone();
                let want = paths.iter().position(|x| x == probe);
                cnt += 1;
                match want {
                    Some(id) => {
                        if calls != vec![(id, k as u32)] {
                            return Err(Fail::new("C17:dispatch", format!("http://<{} bytes>{}{} (prefix {:?}, #{}): invoked {:?}, expected handler {}", alen, prefix, probe, prefix, pi, calls, id)));
                        }
                    }
                    None => {
                        if !calls.is_empty() || resp.status() != StatusCode::NotFound {
                            return Err(Fail::new("C17:dispatch", format!("http://<{} bytes>{} matches no route: invoked {:?}, status {:?}", alen, probe, calls, resp.status())));
                        }
                    }
                }
            }
        }
    }
    obs.extra_evals = cnt.saturating_sub(1);
    obs.extra_nontrivial = cnt;
    if obs.want_render {
        obs.render = format!("authority of {} bytes x 2 prefixes x 6 paths", alen);
    }
    Ok(())
}

fn c17_authority_enum(tier: Tier, shard: u64, nshards: u64, f: &mut dyn FnMut(&[u64]) -> bool) {
    let mut lens: Vec<u64> = (0..=300).collect();
    for centre in [1u64 << 10, 1 << 12, 1 << 15, 1 << 16, 1 << 17] {
        lens.extend(centre - 24..=centre + 24);
    }
    if tier != Tier::Quick {
        for centre in [1u64 << 20, 1 << 24] {
            lens.extend(centre - 12..=centre + 12);
        }
    }
    for (c, l) in lens.iter().enumerate() {
        if c as u64 % nshards == shard && !f(&[*l]) {
            return;
        }
    }
}

// --- nested dispatch: handlers that serve their request by dispatching into a router again (the
// inner one carried by the dispatch argument, or the very router that invoked them), on the
// calling thread; whatever a handler does while it runs, each dispatch invokes exactly the
// handler registered for its own (method, absolute path)

struct NCtx {
    inner: HttpRoutes<u32>,
    me: std::sync::atomic::AtomicPtr<HttpRoutes<NCtx>>,
    depth: std::sync::atomic::AtomicU32,
}

use std::sync::atomic::Ordering as AO;

type NLog = Arc<Mutex<Vec<(u8, usize)>>>;

const NCODES: [u16; 5] = [200, 204, 401, 405, 501];

fn nleaf_response(tag: &str, id: usize) -> Response {
    let mut r = Response::new(Version::Http10, status_of(NCODES[id % NCODES.len()]));
    r.set_body(micro_http::Body::new(format!("{}-{}", tag, id)));
    r.set_content_type(MediaType::PlainText);
    r.set_server("handler-own-server");
    r
}

struct NInner {
    id: usize,
    log: NLog,
}

impl EndpointHandler<u32> for NInner {
    fn handle_request(&self, _req: &Request, _arg: &u32) -> Response {
        self.log.lock().unwrap().push((1, self.id));
        nleaf_response("inner", self.id)
    }
}

#[derive(Clone, Debug)]
enum NKind {
    Leaf,
    /// forward to (inner router?, method, uri)
    Fwd(bool, u8, String),
}

struct NOuter {
    id: usize,
    kind: NKind,
    log: NLog,
}

impl EndpointHandler<NCtx> for NOuter {
    fn handle_request(&self, _req: &Request, ctx: &NCtx) -> Response {
        self.log.lock().unwrap().push((0, self.id));
        match &self.kind {
            NKind::Fwd(to_inner, m, uri) if ctx.depth.load(AO::Relaxed) < 2 => {
                let bytes = format!("{} {} HTTP/1.1\r\n\r\n", std::str::from_utf8(METHODS[*m as usize]).unwrap(), uri);
                let req = match Request::try_from(bytes.as_bytes(), None) {
                    Ok(r) => r,
                    Err(_) => return nleaf_response("outer", self.id),
                };
                ctx.depth.fetch_add(1, AO::Relaxed);
                let r = if *to_inner {
                    ctx.inner.handle_http_request(&req, &7)
                } else {
                    // SAFETY: set by the case to the router that is dispatching, which outlives the call
                    unsafe { &*ctx.me.load(AO::Relaxed) }.handle_http_request(&req, ctx)
                };
                ctx.depth.fetch_sub(1, AO::Relaxed);
                r
            }
            _ => nleaf_response("outer", self.id),
        }
    }
}

/// what a dispatch must do, by the model: (invocations in order, status, body)
fn nested_expect(
    outer: &BTreeMap<(u8, String), (usize, NKind)>,
    inner: &BTreeMap<(u8, String), usize>,
    to_inner: bool,
    m: u8,
    uri: &str,
    depth: u32,
    log: &mut Vec<(u8, usize)>,
) -> (u16, Option<Vec<u8>>) {
    let abs = ref_abs_path(uri).to_string();
    if to_inner {
        return match inner.get(&(m, abs)) {
            Some(id) => {
                log.push((1, *id));
                (NCODES[*id % NCODES.len()], Some(format!("inner-{}", id).into_bytes()))
            }
            None => (404, None),
        };
    }
    match outer.get(&(m, abs)) {
        None => (404, None),
        Some((id, kind)) => {
            log.push((0, *id));
            match kind {
                NKind::Fwd(ti, tm, turi) if depth < 2 && Request::try_from(format!("{} {} HTTP/1.1\r\n\r\n", std::str::from_utf8(METHODS[*tm as usize]).unwrap(), turi).as_bytes(), None).is_ok() => {
                    nested_expect(outer, inner, *ti, *tm, turi, depth + 1, log)
                }
                _ => (NCODES[*id % NCODES.len()], Some(format!("outer-{}", id).into_bytes())),
            }
        }
    }
}

fn c17_nested(input: &Input, obs: &mut Obs) -> Result<(), Fail> {
    let mut s = Src::new(input.bytes());
    let prefix_o = PREFIXES[s.below(PREFIXES.len())];
    let prefix_i = PREFIXES[s.below(PREFIXES.len())];
    let log: NLog = Arc::new(Mutex::new(Vec::new()));
    let mut inner: HttpRoutes<u32> = HttpRoutes::new("inner-identity".to_string(), prefix_i.to_string());
    let mut model_i: BTreeMap<(u8, String), usize> = BTreeMap::new();
    for i in 0..s.below(5) {
        let (m, pi) = (s.below(3) as u8, s.below(PATHS.len()));
        let key = (m, format!("{}{}", prefix_i, PATHS[pi]));
        let r = inner.add_route(method_of(m), PATHS[pi].to_string(), Box::new(NInner { id: i, log: log.clone() }));
        if r.is_ok() != !model_i.contains_key(&key) {
            return Err(Fail::new("C17:add-route", format!("inner add_route({}, {:?}) returned {}", m, PATHS[pi], if r.is_ok() { "Ok" } else { "Err" })));
        }
        model_i.entry(key).or_insert(i);
    }
    let mut outer: HttpRoutes<NCtx> = HttpRoutes::new("outer-identity".to_string(), prefix_o.to_string());
    let mut model_o: BTreeMap<(u8, String), (usize, NKind)> = BTreeMap::new();
    let mut desc = Vec::new();
    let mut nfwd = 0;
    for i in 0..s.range(1, 7) {
        let (m, pi) = (s.below(3) as u8, s.below(PATHS.len()));
        let kind = if s.chance(150) {
            let to_inner = s.chance(140);
            nfwd += 1;
            // the target is usually a route that exists (in the inner table, or an earlier or the
            // very same route of the outer one)
            let existing: Vec<(u8, String)> = if to_inner { model_i.keys().cloned().collect() } else { model_o.keys().cloned().chain(std::iter::once((m, format!("{}{}", prefix_o, PATHS[pi])))).collect() };
            let existing: Vec<(u8, String)> = existing.into_iter().filter(|k| k.1.starts_with('/')).collect();
            if !existing.is_empty() && s.chance(190) {
                let k = &existing[s.below(existing.len())];
                NKind::Fwd(to_inner, k.0, if s.chance(60) { format!("http://up{}", k.1) } else { k.1.clone() })
            } else {
                NKind::Fwd(to_inner, s.below(3) as u8, c17_uri_for(&mut s, if to_inner { prefix_i } else { prefix_o }))
            }
        } else {
            NKind::Leaf
        };
        let key = (m, format!("{}{}", prefix_o, PATHS[pi]));
        let r = outer.add_route(method_of(m), PATHS[pi].to_string(), Box::new(NOuter { id: i, kind: kind.clone(), log: log.clone() }));
        if r.is_ok() != !model_o.contains_key(&key) {
            return Err(Fail::new("C17:add-route", format!("outer add_route({}, {:?}) returned {}", m, PATHS[pi], if r.is_ok() { "Ok" } else { "Err" })));
        }
        desc.push((m, PATHS[pi], kind.clone()));
        model_o.entry(key).or_insert((i, kind));
    }
    let ctx = NCtx { inner, me: std::sync::atomic::AtomicPtr::new(std::ptr::null_mut()), depth: std::sync::atomic::AtomicU32::new(0) };
    ctx.me.store(&outer as *const _ as *mut _, AO::Relaxed);
    let nreq = s.range(1, 6);
    let mut reqs = Vec::new();
    // requests aim at the forwarding routes more often than chance would
    let fwd_keys: Vec<(u8, String)> = model_o.iter().filter(|(_, v)| matches!(v.1, NKind::Fwd(..))).map(|(k, _)| k.clone()).collect();
    for _ in 0..nreq {
        if !fwd_keys.is_empty() && s.chance(130) {
            let k = &fwd_keys[s.below(fwd_keys.len())];
            reqs.push((k.0, if k.1.is_empty() { "/".to_string() } else { k.1.clone() }));
        } else {
            reqs.push((s.below(3) as u8, c17_uri_for(&mut s, prefix_o)));
        }
    }
    let mut nested_seen = false;
    for (m, uri) in &reqs {
        let bytes = format!("{} {} HTTP/1.1\r\n\r\n", std::str::from_utf8(METHODS[*m as usize]).unwrap(), uri);
        let req = match Request::try_from(bytes.as_bytes(), None) {
            Ok(r) => r,
            Err(_) => continue,
        };
        log.lock().unwrap().clear();
        ctx.depth.store(0, AO::Relaxed);
        let resp = match std::panic::catch_unwind(std::panic::AssertUnwindSafe(|| outer.handle_http_request(&req, &ctx))) {
            Ok(r) => r,
            Err(p) => {
                return Err(Fail::new("C17:dispatch", format!("dispatch of {} {:?} panicked while a handler was dispatching a further request on the same thread: {}", m, uri, crate::connrun::panic_msg(p))));
            }
        };
        let calls = log.lock().unwrap().clone();
        let mut want_calls = Vec::new();
        let (code, body) = nested_expect(&model_o, &model_i, false, *m, uri, 0, &mut want_calls);
        if want_calls.len() >= 2 {
            nested_seen = true;
        }
        if calls != want_calls {
            return Err(Fail::new("C17:dispatch", format!("request {} {:?}: handlers invoked (router, id) {:?}, expected {:?} (routes {:?})", m, uri, calls, want_calls, desc)));
        }
        // (what a 404 carries besides its status is the router's business)
        if resp.status() != status_of(code) || (body.is_some() && resp.body().map(|b| b.raw().to_vec()) != body) {
            return Err(Fail::new("C17:response", format!("request {} {:?}: status {:?}, expected {} with the body of the last handler in the chain", m, uri, resp.status(), code)));
        }
        if resp.content_type() != MediaType::ApplicationJson {
            return Err(Fail::new("C17:stamp", "content type is not application/json".into()));
        }
        let mut out = Vec::new();
        resp.write_all(&mut out).map_err(|e| Fail::new("C17:write", format!("{}", e)))?;
        let (rs, end) = rr_parse(&out);
        if end != RrEnd::Clean || rs.len() != 1 {
            return Err(Fail::new("C17:stamp", format!("router response does not parse: {:?}", end)));
        }
        if rs[0].header("Server") != Some("outer-identity") {
            return Err(Fail::new("C17:stamp", format!("Server header {:?} is not the identity of the router that was asked", rs[0].header("Server"))));
        }
    }
    if nested_seen {
        obs.label("handler_dispatched_a_further_request");
    }
    if nfwd > 0 {
        obs.label("forwarding_route_registered");
    }
    obs.nontrivial = nested_seen;
    if obs.want_render {
        obs.render = format!("outer prefix={:?} routes={:?}; inner prefix={:?} routes={:?}; requests={:?}", prefix_o, desc, prefix_i, model_i, reqs);
    }
    Ok(())
}

fn c17_plan(tier: Tier) -> Vec<Job> {
    let q = tier == Tier::Quick;
    vec![
        Job { sub: "tables", kind: JobKind::Pbt { cases: if q { 300_000 } else { 6_000_000 }, max_len: 80 }, smallbuf: false },
        Job { sub: "nested", kind: JobKind::Pbt { cases: if q { 100_000 } else { 2_000_000 }, max_len: 120 }, smallbuf: false },
        Job { sub: "long", kind: JobKind::Enum { f: c17_long_enum, bound: "sibling routes on paths of every length 2..399 (thorough: ..879), with and without a prefix, probed with the exact path, one-byte extensions, a truncation, 3 methods, origin and absolute form" }, smallbuf: false },
        Job { sub: "authority", kind: JobKind::Enum { f: c17_authority_enum, bound: "absolute-form requests with an authority of every length 0..300 and within 24 of 2^10, 2^12, 2^15, 2^16, 2^17 (thorough: also 2^20, 2^24), ASCII and two-byte characters, x 2 prefixes x 6 paths" }, smallbuf: false },
        Job { sub: "small", kind: JobKind::Enum { f: c17_small_enum, bound: "5 prefixes x all ordered route tables of <= 2 (quick) / <= 3 (thorough) registrations over 3 methods x 16 paths (one starting with //, three with or against a `:name` segment) (duplicates included) x all requests over the same alphabet in origin-form and three absolute forms (one with a non-ASCII authority), with and without the prefix" }, smallbuf: false },
    ]
}

pub fn c17() -> PropDef {
    PropDef {
        id: "C17",
        subs: vec![("tables", c17_tables), ("nested", c17_nested), ("small", c17_small), ("long", c17_long), ("authority", c17_authority)],
        plan: c17_plan,
        rule: "case = (prefix, 0..8 registrations over 3 methods x 10 paths incl. prefixes of one another, ':' and empty, requests in origin/absolute form); handlers record invocations and return distinguishable responses; oracle = model map (method, prefix+path) -> first registered handler, exactly-one-invocation with the caller's argument, 404 otherwise, Server/Content-Type stamp read back by the independent response reader; non-trivial = >=2 routes that share a path, a method or a path prefix (or a duplicate) and at least one request evaluated; identities of 0..12 characters over an alphabet with HTAB, C0/DEL, lone CR/LF, NBSP, ':' ; sub 'authority': absolute-form requests with an authority of every length 0..300 and around 2^10..2^17 (thorough 2^24); sub 'nested': an outer table whose handlers may dispatch a further request (into an inner router carried by the dispatch argument, or into the outer router itself, to depth 2) on the calling thread: the chain of invocations, the final status/body and the outer router's stamp against the model",
        assumptions: vec![],
        single_threaded_world: false,
    }
}

// =======================================================================================
// C05

const CODES: [u16; 11] = [100, 200, 204, 400, 401, 404, 405, 413, 500, 501, 503];

struct ChunkSink {
    out: Vec<u8>,
    plan: Vec<u8>,
    i: usize,
    interrupts: usize,
    last_interrupted: bool,
}

impl Write for ChunkSink {
    fn write(&mut self, buf: &[u8]) -> std::io::Result<usize> {
        let p = if self.plan.is_empty() { 0 } else { self.plan[self.i % self.plan.len()] };
        self.i += 1;
        if p >= 250 && !self.last_interrupted {
            // never twice in a row: write_all retries an interrupted write until it succeeds
            self.interrupts += 1;
            self.last_interrupted = true;
            return Err(std::io::Error::from(std::io::ErrorKind::Interrupted));
        }
        self.last_interrupted = false;
        if buf.is_empty() {
            return Ok(0);
        }
        let k = 1 + (p.min(249) as usize * buf.len()) / 250;
        let k = k.min(buf.len());
        self.out.extend_from_slice(&buf[..k]);
        Ok(k)
    }
    fn flush(&mut self) -> std::io::Result<()> {
        Ok(())
    }
}

fn c05_body(s: &mut Src) -> Vec<u8> {
    if s.chance(40) {
        // bodies a writer might be tempted to normalise: byte order marks, compression magic,
        // blank edges, a chunked-encoding terminator, NUL
        const HEADS: [&[u8]; 12] = [b"\xef\xbb\xbf", b"\xfe\xff", b"\xff\xfe", b"\x1f\x8b\x08", b" ", b"\n", b"\r\n", b"\t", b"\0", b"0\r\n\r\n", b"\xef\xbb", b"\xc2\xa0"];
        const TAILS: [&[u8]; 8] = [b"", b"\n", b"\r\n", b" ", b"\0", b"\r\n\r\n", b"\xef\xbb\xbf", b"\t"];
        let mut v = HEADS[s.below(HEADS.len())].to_vec();
        v.extend_from_slice([&b"{\"a\": 1}"[..], b"", b"[]", b"x"][s.below(4)]);
        v.extend_from_slice(TAILS[s.below(TAILS.len())]);
        return v;
    }
    match s.weighted(&[6, 3, 3, 3, 3, 2, 1]) {
        0 => filler(0, s.u8(), s.range(1, 60)),
        1 => Vec::new(),
        2 => b"\r\n\r\n".to_vec(),
        3 => b"HTTP/1.1 200 \r\nServer: x\r\nConnection: keep-alive\r\nContent-Type: application/json\r\nContent-Length: 2\r\n\r\nhi".to_vec(),
        4 => {
            let mut v = b"HTTP/1.0 404 \r\n".to_vec();
            v.extend(filler(1, s.u8(), s.range(0, 300)));
            v
        }
        5 => filler(s.below(5), s.u8(), s.range(1000, 9000)),
        _ => filler(s.below(5), s.u8(), 65536),
    }
}

pub fn c05_call(s: &mut Src, kind: usize) -> Call {
    match kind {
        0 => Call::SetBody(c05_body(s)),
        1 => Call::SetContentType(s.below(2) as u8),
        2 => Call::SetDeprecation,
        3 => Call::SetEncoding,
        4 => {
            let v = ["srv", "", "Firecracker API", "a: b", "\u{e9}\u{4e2d}", "x y z", "HTTP/1.1 200 "];
            if s.chance(80) {
                // any characters inside the name (HTAB, other C0/C1 controls, DEL, NBSP, a byte
                // order mark; never CR or LF, which would end the line), letters at both ends
                const INNER: [&str; 14] = ["\t", "\u{1}", "\u{7}", "\u{b}", "\u{1b}", "\u{7f}", "\u{85}", "\u{9f}", "\u{a0}", "\u{feff}", "\0", " ", ":", "\u{2028}"];
                let mut t = String::from("S");
                for _ in 0..s.range(1, 4) {
                    t.push_str(INNER[s.below(INNER.len())]);
                    t.push('v');
                }
                return Call::SetServer(t);
            }
            Call::SetServer(v[s.below(v.len())].to_string())
        }
        5 => {
            let n = s.below(4);
            Call::SetAllow((0..n).map(|_| s.below(3) as u8).collect())
        }
        _ => Call::AllowMethod(s.below(3) as u8),
    }
}

fn resp_eq(r: &Resp, m: &Model) -> Option<String> {
    if r.version != m.version || r.code != m.code {
        return Some(format!("status line {}/{} != {}/{}", r.version, r.code, m.version, m.code));
    }
    if r.body != m.body.clone().unwrap_or_default() && m.clen.is_some() {
        return Some("body differs".into());
    }
    if r.header("Server") != Some(m.server.as_str()) {
        return Some(format!("Server {:?}", r.header("Server")));
    }
    if r.header("Connection") != Some("keep-alive") {
        return Some("Connection header".into());
    }
    if r.header("Deprecation").is_some() != m.deprecation {
        return Some("Deprecation presence".into());
    }
    if r.header("Allow").is_some() != !m.allow.is_empty() {
        return Some("Allow presence".into());
    }
    match m.clen {
        Some(n) => {
            if r.header("Content-Length") != Some(n.to_string().as_str()) {
                return Some(format!("Content-Length {:?} != {}", r.header("Content-Length"), n));
            }
            if r.header("Content-Type") != Some(if m.ctype == 0 { "text/plain" } else { "application/json" }) {
                return Some("Content-Type".into());
            }
            if r.header("Accept-Encoding").is_some() != m.encoding {
                return Some("Accept-Encoding presence".into());
            }
        }
        None => {
            if r.header("Content-Length").is_some() || r.header("Content-Type").is_some() || r.header("Accept-Encoding").is_some() {
                return Some("length-dependent header present without a length".into());
            }
        }
    }
    None
}

/// check a list of responses (each = version, code, calls); `with_cl` marks sequences that
/// used set_content_length (exact bytes only)
/// accepts `room` bytes in all, then fails every write with a non-interrupt error
struct FailSink {
    out: Vec<u8>,
    room: usize,
    chunk: usize,
}

impl Write for FailSink {
    fn write(&mut self, buf: &[u8]) -> std::io::Result<usize> {
        if buf.is_empty() {
            return Ok(0);
        }
        if self.room == 0 {
            return Err(std::io::Error::from(std::io::ErrorKind::BrokenPipe));
        }
        let k = buf.len().min(self.room).min(self.chunk.max(1));
        self.out.extend_from_slice(&buf[..k]);
        self.room -= k;
        Ok(k)
    }
    fn flush(&mut self) -> std::io::Result<()> {
        Ok(())
    }
}

fn c05_check(items: &[(u8, u16, Vec<Call>)], sink_plan: &[u8]) -> Result<(), Fail> {
    c05_check_f(items, sink_plan, &[])
}

/// `fails[i] = Some((room, chunk))`: before item i is written anywhere else, it is written into
/// a sink that breaks after `room` bytes; what that sink took is a prefix of the serialization,
/// and nothing of the failed attempt shows in any later write (of this or another response)
fn c05_check_f(items: &[(u8, u16, Vec<Call>)], sink_plan: &[u8], fails: &[Option<(usize, usize)>]) -> Result<(), Fail> {
    let mut concat = Vec::new();
    let mut models = Vec::new();
    let mut delimited = true;
    for (idx, (v, code, calls)) in items.iter().enumerate() {
        let real = build_real(*v, *code, calls);
        let model = build_model(*v, *code, calls);
        if let Some(Some((room, chunk))) = fails.get(idx) {
            let want = model.bytes();
            let mut fs = FailSink { out: Vec::new(), room: *room, chunk: *chunk };
            let r = real.write_all(&mut fs);
            if *room >= want.len() {
                if r.is_err() || fs.out != want {
                    return Err(Fail::new("C05:sink", format!("write_all into a sink with room for everything: result {:?}, {} of {} bytes", r.map_err(|e| e.kind()), fs.out.len(), want.len())));
                }
            } else {
                if r.is_ok() {
                    return Err(Fail::new("C05:sink", format!("write_all reports success although the sink broke after {} of {} bytes", room, want.len())));
                }
                if fs.out[..] != want[..fs.out.len().min(want.len())] || fs.out.len() > want.len() {
                    return Err(Fail::new("C05:sink", format!("bytes accepted by a sink that broke after {} bytes are not a prefix of the serialization: \"{}\"", room, esc(&fs.out))));
                }
            }
        }
        let mut out = Vec::new();
        real.write_all(&mut out).map_err(|e| Fail::new("C05:write", format!("write_all into a Vec failed: {}", e)))?;
        let want = model.bytes();
        if out != want {
            return Err(Fail::new("C05:bytes", format!("{} {} calls {:?}:\n got  \"{}\"\n want \"{}\"", v, code, short_calls(calls), esc(&out), esc(&want))));
        }
        // (ii) the length rule over all statuses
        let has_body_call = calls.iter().any(|c| matches!(c, Call::SetBody(_)));
        let has_cl_call = calls.iter().any(|c| matches!(c, Call::SetContentLength(_)));
        if !has_cl_call {
            let present = find_sub(&out, b"\r\nContent-Length: ").is_some();
            let expect_present = has_body_call || !(*code == 100 || *code == 204);
            if present != expect_present {
                return Err(Fail::new("C05:length-rule", format!("status {} body_set={} : Content-Length present={}", code, has_body_call, present)));
            }
            if real.status() != status_of(*code) {
                return Err(Fail::new("C05:status", "status() differs".into()));
            }
        } else {
            delimited = false;
        }
        // (iv) chunking sink
        let mut sink = ChunkSink { out: Vec::new(), plan: sink_plan.to_vec(), i: 0, interrupts: 0, last_interrupted: false };
        real.write_all(&mut sink).map_err(|e| Fail::new("C05:sink", format!("write_all into a chunking sink failed: {}", e)))?;
        if sink.out != out {
            return Err(Fail::new("C05:sink", format!("bytes differ when the sink accepts {:?}-patterned chunks", &sink_plan[..sink_plan.len().min(8)])));
        }
        concat.extend_from_slice(&out);
        models.push(model);
    }
    // (v) the same responses queued on a connection and written out in drawn chunks: the stream
    // receives the concatenation of the serialisations, however the writes were split
    {
        use crate::connrun::ConnRun;
        use crate::stream::WriteEv;
        let mut run = ConnRun::new(Vec::new(), None, false);
        for (v, code, calls) in items {
            run.conn.enqueue_response(build_real(*v, *code, calls));
        }
        let mut i = 0usize;
        let mut guard = 0;
        let mut last_intr = false;
        // byte-sized writes for small totals; for large ones every write takes at least 1/16 of
        // what is offered (the prefix is removed from the buffer after each write)
        let floor: u16 = if concat.len() > 4000 { 4096 } else { 0 };
        while run.conn.pending_write() && guard < 100_000 {
            guard += 1;
            let p = if sink_plan.is_empty() { 255 } else { sink_plan[i % sink_plan.len()] };
            i += 1;
            // (never two interrupts in a row: the schedule must make progress)
            let ev = if p >= 250 { WriteEv::All } else if p % 7 == 3 && !last_intr { WriteEv::Eintr } else { WriteEv::Accept(((p as u16) << 8 | p as u16).max(floor)) };
            last_intr = ev == WriteEv::Eintr;
            run.ss.borrow_mut().next_write = Some(ev);
            if let Err(e) = run.conn.try_write() {
                return Err(Fail::new("C05:connection", format!("try_write failed with {:?} on a stream that accepts data", e)));
            }
        }
        run.ss.borrow_mut().next_write = None;
        let got = run.ss.borrow().out.clone();
        if got != concat {
            let at = got.iter().zip(concat.iter()).position(|(a, b)| a != b).unwrap_or(got.len().min(concat.len()));
            return Err(Fail::new("C05:connection", format!("{} responses written through a connection in chunks: {} bytes received, {} expected, first difference at {}", items.len(), got.len(), concat.len(), at)));
        }
    }
    // (iii) round trip of the concatenation
    if delimited {
        let (rs, end) = rr_parse(&concat);
        if end != RrEnd::Clean || rs.len() != models.len() {
            return Err(Fail::new("C05:roundtrip", format!("independent reader recovers {} of {} responses, end {:?}", rs.len(), models.len(), end)));
        }
        for (r, m) in rs.iter().zip(models.iter()) {
            if let Some(d) = resp_eq(r, m) {
                return Err(Fail::new("C05:roundtrip", format!("recovered response differs: {}", d)));
            }
        }
    }
    Ok(())
}

fn find_sub(h: &[u8], n: &[u8]) -> Option<usize> {
    h.windows(n.len()).position(|w| w == n)
}

fn short_calls(calls: &[Call]) -> Vec<String> {
    calls
        .iter()
        .map(|c| match c {
            Call::SetBody(b) => format!("set_body({} bytes \"{}\")", b.len(), esc(&b[..b.len().min(24)])),
            other => format!("{:?}", other),
        })
        .collect()
}

fn c05_build(input: &Input, obs: &mut Obs) -> Result<(), Fail> {
    let mut s = Src::new(input.bytes());
    let nresp = 1 + s.weighted_n(6);
    let mut items = Vec::new();
    for _ in 0..nresp {
        let v = s.below(2) as u8;
        let code = CODES[s.below(CODES.len())];
        let ncalls = s.below(13);
        let mut calls = Vec::new();
        for _ in 0..ncalls {
            let k = s.weighted(&[8, 3, 2, 2, 3, 2, 3, 1]);
            if k == 7 {
                calls.push(Call::SetContentLength(match s.below(4) { 0 => None, 1 => Some(0), 2 => Some(7), _ => Some(-1) }));
                obs.label("set_content_length_used");
            } else {
                calls.push(c05_call(&mut s, k));
            }
        }
        items.push((v, code, calls));
    }
    let plan_len = s.below(12);
    let plan: Vec<u8> = (0..plan_len).map(|_| s.u8()).collect();
    // now and then a write of one of the responses fails part-way first (a client went away)
    let mut fails: Vec<Option<(usize, usize)>> = Vec::new();
    if s.chance(60) {
        for _ in 0..items.len() {
            fails.push(if s.chance(110) { Some((s.weighted_n(200), [1usize, 7, 4096][s.below(3)])) } else { None });
        }
        if fails.iter().any(|f| f.is_some()) {
            obs.label("failed_write_before");
        }
    }
    c05_check_f(&items, &plan, &fails)?;
    // now and then a response is also written out *between* its builder calls (a response object
    // that is written, modified and written again): every serialisation shows exactly the calls
    // made so far
    if s.chance(70) {
        let mask = s.u16();
        for (v, code, calls) in &items {
            let mut real = Response::new(version_of(*v), status_of(*code));
            let mut model = crate::respread::Model::new(*v, *code);
            let mut writes = 0;
            for (i, c) in calls.iter().enumerate() {
                if (mask >> (i % 16)) & 1 == 1 || i == 0 {
                    let mut out = Vec::new();
                    real.write_all(&mut out).map_err(|e| Fail::new("C05:write", format!("write_all into a Vec failed: {}", e)))?;
                    if out != model.bytes() {
                        return Err(Fail::new("C05:bytes-between-calls", format!("{} {} written after {:?} ({} earlier write(s) of the same object):\n got  \"{}\"\n want \"{}\"", v, code, short_calls(&calls[..i]), writes, esc(&out), esc(&model.bytes()))));
                    }
                    writes += 1;
                }
                crate::respread::apply_real(&mut real, c);
                model.apply(c);
            }
            let mut out = Vec::new();
            real.write_all(&mut out).map_err(|e| Fail::new("C05:write", format!("write_all into a Vec failed: {}", e)))?;
            if out != model.bytes() {
                return Err(Fail::new("C05:bytes-between-calls", format!("{} {} written after {:?} ({} earlier write(s) of the same object):\n got  \"{}\"\n want \"{}\"", v, code, short_calls(calls), writes, esc(&out), esc(&model.bytes()))));
            }
            if writes > 0 && !calls.is_empty() {
                obs.label("written_between_builder_calls");
            }
        }
    }
    let ncalls: usize = items.iter().map(|i| i.2.len()).sum();
    let special_body = items.iter().any(|i| i.2.iter().any(|c| matches!(c, Call::SetBody(b) if find_sub(b, b"\r\n\r\n").is_some() || b.starts_with(b"HTTP/"))));
    obs.nontrivial = ncalls >= 2 || special_body || items.len() >= 2;
    if items.len() >= 2 {
        obs.label("concatenated_responses");
    }
    if special_body {
        obs.label("body_with_CRLFCRLF_or_status_text");
    }
    for (_, code, calls) in &items {
        let hb = calls.iter().any(|c| matches!(c, Call::SetBody(_)));
        if *code == 100 || *code == 204 {
            obs.label(if hb { "100/204_with_body" } else { "100/204_without_body" });
        } else if !hb {
            obs.label("no_body_content_length_0");
        }
        if calls.iter().any(|c| matches!(c, Call::SetBody(b) if b.len() == 65536)) {
            obs.label("body_64KiB");
        }
        let mut pushed = false;
        for c in calls {
            if matches!(c, Call::AllowMethod(_)) {
                pushed = true;
            }
            if matches!(c, Call::SetAllow(_)) && pushed {
                obs.label("allow_replaced_after_push");
            }
        }
    }
    if plan.iter().any(|p| *p == 0) {
        obs.label("sink_chunk_size_1");
    }
    if plan.iter().any(|p| *p >= 250) {
        obs.label("sink_interrupted");
    }
    if obs.want_render {
        obs.render = format!("responses={:?} sink_plan={:?}", items.iter().map(|(v, c, calls)| (v, c, short_calls(calls))).collect::<Vec<_>>(), plan);
    }
    Ok(())
}

/// E2: params = [version, status index, ncalls, kind sequence encoded base 7]
fn c05_seq(input: &Input, obs: &mut Obs) -> Result<(), Fail> {
    let p = input.params();
    let v = p[0] as u8;
    let code = CODES[p[1] as usize];
    let n = p[2] as usize;
    let mut x = p[3];
    // arguments are a fixed function of the position (deterministic)
    let argbytes: Vec<u8> = filler(1, (p[3] % 251) as u8, 64);
    let mut s = Src::new(&argbytes);
    let mut calls = Vec::new();
    for _ in 0..n {
        calls.push(c05_call(&mut s, (x % 7) as usize));
        x /= 7;
    }
    let plan = [0u8, 255, 100, 3];
    c05_check(&[(v, code, calls.clone()), (1 - v, CODES[(p[1] as usize + 3) % 11], vec![])], &plan)?;
    obs.nontrivial = n >= 2;
    if obs.want_render {
        obs.render = format!("version={} status={} calls={:?}", v, code, short_calls(&calls));
    }
    Ok(())
}

fn c05_seq_enum(tier: Tier, shard: u64, nshards: u64, f: &mut dyn FnMut(&[u64]) -> bool) {
    let maxn = if tier == Tier::Quick { 3 } else { 5 };
    let mut c = 0u64;
    for v in 0..2u64 {
        for si in 0..11u64 {
            for n in 0..=maxn as u64 {
                for seq in 0..7u64.pow(n as u32) {
                    c += 1;
                    if c % nshards == shard && !f(&[v, si, n, seq]) {
                        return;
                    }
                }
            }
        }
    }
}

/// exhaustive over the body length: params = [first length of a block of 64 lengths, version, status index]
fn c05_lengths(input: &Input, obs: &mut Obs) -> Result<(), Fail> {
    let p = input.params();
    let v = p[1] as u8;
    let code = CODES[p[2] as usize];
    let mut n = 0u64;
    for len in p[0]..p[0] + 64 {
        if len > 200_000 {
            // the i32 edge blocks exercise set_content_length only
            break;
        }
        let body = filler(3, 0, len as usize);
        // a second, bodiless response behind it shows whether the first is self-delimiting
        let items = vec![(v, code, vec![Call::SetBody(body)]), (1 - v, 204u16, vec![])];
        c05_check(&items, &[200, 3])?;
        n += 1;
    }
    // set_content_length with the same numbers (exact bytes only)
    for len in p[0]..p[0] + 64 {
        for signed in [len as i64, -(len as i64)] {
            if signed < i32::MIN as i64 || signed > i32::MAX as i64 {
                continue;
            }
            c05_check(&[(v, code, vec![Call::SetContentLength(Some(signed as i32))])], &[])?;
            n += 1;
        }
    }
    obs.extra_evals = n - 1;
    obs.extra_nontrivial = n;
    if obs.want_render {
        obs.render = format!("version={} status={} set_body with every length {}..{} followed by a 204; set_content_length(+-n)", v, code, p[0], p[0] + 63);
    }
    Ok(())
}

fn c05_lengths_enum(tier: Tier, shard: u64, nshards: u64, f: &mut dyn FnMut(&[u64]) -> bool) {
    let mut c = 0u64;
    let max = if tier == Tier::Quick { 66_048 } else { 132_096 };
    let mut start = 0u64;
    while start < max {
        c += 1;
        if c % nshards == shard {
            // version and status vary with the block; every length is visited once
            if !f(&[start, c % 2, (c / 2) % 11]) {
                return;
            }
        }
        start += 64;
    }
    // i32 edge values of an explicit Content-Length
    if shard == 0 {
        for e in [i32::MAX as u64 - 63, 999_999_936, 99_999_936, 9_999_936] {
            if !f(&[e, 1, 1]) {
                return;
            }
        }
    }
}

/// exhaustive Allow lists: every list of length <= 4 over the 3 methods, built by set_allow or by pushes
fn c05_allow(_input: &Input, obs: &mut Obs) -> Result<(), Fail> {
    let mut n = 0u64;
    for len in 0..=4u32 {
        for code in 0..3u64.pow(len) {
            let mut list = Vec::new();
            let mut x = code;
            for _ in 0..len {
                list.push((x % 3) as u8);
                x /= 3;
            }
            for split in 0..=list.len() {
                // set_allow(first part) then allow_method for the rest
                let mut calls = vec![Call::SetAllow(list[..split].to_vec())];
                for m in &list[split..] {
                    calls.push(Call::AllowMethod(*m));
                }
                c05_check(&[(1, 405, calls), (0, 200, vec![])], &[0, 255, 7])?;
                n += 1;
            }
        }
    }
    obs.extra_evals = n - 1;
    obs.extra_nontrivial = n;
    obs.render = "every Allow list of length <= 4 over {GET, PUT, PATCH}, every split between set_allow and allow_method".into();
    Ok(())
}

fn c05_once_enum(_tier: Tier, shard: u64, _nshards: u64, f: &mut dyn FnMut(&[u64]) -> bool) {
    if shard == 0 {
        f(&[0]);
    }
}

fn c05_plan(tier: Tier) -> Vec<Job> {
    let q = tier == Tier::Quick;
    vec![
        Job { sub: "lengths", kind: JobKind::Enum { f: c05_lengths_enum, bound: if q { "set_body with a body of every length 0..66047 (and set_content_length(+-n) for the same n, plus i32 edge blocks), each followed by a second response" } else { "same, every length 0..132095" } }, smallbuf: false },
        Job { sub: "allow", kind: JobKind::Enum { f: c05_once_enum, bound: "every Allow list of length <= 4 over the 3 methods x every split between set_allow and allow_method" }, smallbuf: false },
        Job { sub: "build", kind: JobKind::Pbt { cases: if q { 200_000 } else { 4_000_000 }, max_len: 400 }, smallbuf: false },
        Job { sub: "seq", kind: JobKind::Enum { f: c05_seq_enum, bound: if q { "2 versions x 11 statuses x all builder-call kind sequences of length <= 3 over 7 kinds" } else { "2 versions x 11 statuses x all builder-call kind sequences of length <= 5 over 7 kinds" } }, smallbuf: false },
    ]
}

pub fn c05() -> PropDef {
    PropDef {
        id: "C05",
        subs: vec![("build", c05_build), ("seq", c05_seq), ("lengths", c05_lengths), ("allow", c05_allow)],
        plan: c05_plan,
        rule: "case = 1..6 responses, each (version, status, <=12 builder calls with generated arguments; bodies 0..64 KiB incl. CRLFCRLF / status-line look-alikes) + a chunking/interrupting sink pattern; oracle = byte-exact serialisation model, the length rule over all 11 statuses, round-trip of the concatenation through the independent response reader, sink-independence; non-trivial = >=2 builder calls, a body containing CRLFCRLF or status-like text, or >=2 concatenated responses; before a response is written it may first be written into a sink that breaks after 0..199 bytes (accepted bytes are a prefix, the failure is reported, later writes unaffected)",
        assumptions: vec![
            "server strings contain no CR/LF (a CR/LF in an application-chosen header value is a caller error)",
            "sequences using set_content_length (outside the property's call list) are checked for exact bytes only",
        ],
        single_threaded_world: false,
    }
}

// =======================================================================================
// C14

fn fields_eq(q: &Request, d: &Delivered) -> Option<String> {
    let qd = delivered_of(q);
    if qd.method != d.method || qd.uri_dbg != d.uri_dbg || qd.abs_path != d.abs_path || qd.version != d.version {
        return Some(format!("request line differs: one-shot {:?} vs connection {:?}", (qd.method, &qd.uri_dbg, qd.version), (d.method, &d.uri_dbg, d.version)));
    }
    if qd.cl != d.cl || qd.expect != d.expect || qd.chunked != d.chunked || qd.accept != d.accept {
        return Some(format!("recognised headers differ: one-shot {:?} vs connection {:?}", (qd.cl, qd.expect, qd.chunked, qd.accept), (d.cl, d.expect, d.chunked, d.accept)));
    }
    if qd.custom != d.custom {
        return Some(format!("custom headers differ: {:?} vs {:?}", qd.custom, d.custom));
    }
    if qd.body != d.body {
        return Some(format!("body differs: {:?} vs {:?}", qd.body.as_ref().map(|b| esc(b)), d.body.as_ref().map(|b| esc(b))));
    }
    None
}

pub fn c14_check(slice: &[u8], obs: &mut Obs) -> Result<(), Fail> {
    c14_check_sched(slice, &[], false, obs)
}

/// same, with the slice fed in pieces: `cuts` are read boundaries, `idle` puts one read that
/// finds nothing (EAGAIN) at the first cut. The connection is "fed the same bytes" either way.
pub fn c14_check_sched(slice: &[u8], cuts: &[usize], idle: bool, obs: &mut Obs) -> Result<(), Fail> {
    let b = buf_size();
    let one = Request::try_from(slice, None);
    // REF as referee for comparability (line lengths, payload) and for the report.
    // The connection keeps its default limit whenever the slice is within it (the statement's
    // "within the line and payload limits"); otherwise it is given the largest one.
    let (_, end_default) = ref_parse(slice, b, DEFAULT_LIMIT);
    let within_default = !matches!(end_default, End::Error { err: RefErr::Payload { .. }, .. });
    // "within the payload limit": the default when the slice fits it, otherwise one that no 32-bit
    // declaration exceeds (2^32-1, 2^32, 2^32+10 or usize::MAX, picked by the slice itself)
    let big = [u32::MAX as usize, 1usize << 32, (1usize << 32) + 10, usize::MAX][(fnv64(slice) % 4) as usize];
    let large_anyway = fnv64(slice) % 16 == 5;
    let within_default = within_default && !large_anyway;
    let limit = if within_default { DEFAULT_LIMIT } else { big };
    let (reqs, end) = ref_parse(slice, b, limit);
    // feed the connection with whole-window reads, limit >= any declared length
    let mut run = ConnRun::new(slice.to_vec(), if within_default { None } else { Some(limit) }, false);
    let mut delivered: Vec<Delivered> = Vec::new();
    let mut conn_err: Option<RRes> = None;
    let mut guard = 0;
    let mut targets: Vec<usize> = cuts.iter().copied().filter(|c| *c > 0 && *c < slice.len()).collect();
    targets.sort_unstable();
    let mut idle_pending = idle && !targets.is_empty();
    while run.remaining() > 0 && guard < slice.len() + 16 {
        guard += 1;
        if idle_pending && Some(&run.consumed) == targets.first() {
            idle_pending = false;
            let st = run.read(ReadEv::Eagain).map_err(|m| Fail::new("C14:misuse", m))?.clone();
            if !matches!(st.res, RRes::ReadErr(_) | RRes::Ok) {
                conn_err = Some(st.res);
                break;
            }
            obs.label("idle_read_between_pieces");
            continue;
        }
        let next = targets.iter().copied().find(|t| *t > run.consumed).unwrap_or(slice.len());
        let st = run.read(ReadEv::Data { want: (next - run.consumed).min(b).max(1), fds: vec![] }).map_err(|m| Fail::new("C14:misuse", m))?.clone();
        delivered.extend(st.reqs.iter().cloned());
        match st.res {
            RRes::Ok => {}
            other => {
                conn_err = Some(other);
                break;
            }
        }
    }
    // a line longer than the window is outside the comparable set
    let line_too_long = matches!(end, End::Error { err: RefErr::ReqLineTooLong, .. } | End::Error { err: RefErr::Header(HFault::LineTooLong), .. });
    let first_within_limits = !line_too_long || !reqs.is_empty() && reqs[0].complete_at != usize::MAX;
    match &one {
        Ok(q) => {
            obs.label("oneshot_accepts");
            if first_within_limits {
                match delivered.first() {
                    Some(d) => {
                        if let Some(m) = fields_eq(q, d) {
                            return Err(Fail::new("C14:forward-fields", format!("slice \"{}\": {}", esc(slice), m)));
                        }
                    }
                    None => {
                        return Err(Fail::new("C14:forward-missing", format!("one-shot parser accepts \"{}\" but the connection delivers no first request (result {:?})", esc(slice), conn_err)));
                    }
                }
            } else {
                obs.label("beyond_line_limit_not_comparable");
            }
        }
        Err(_) => obs.label("oneshot_rejects"),
    }
    // converse: exactly one request, nothing left over, no error. "Nothing left over" is judged on
    // the connection itself: a probe request fed afterwards must come out clean and alone.
    let mut exactly_one = false;
    if delivered.len() == 1 && conn_err.is_none() {
        let probe = b"GET /probe-c14 HTTP/1.1\r\n\r\n";
        run.feed(probe);
        let mut after: Vec<Delivered> = Vec::new();
        let mut perr = false;
        let mut g = 0;
        while run.remaining() > 0 && g < 4 {
            g += 1;
            let st = run.read(ReadEv::Data { want: b, fds: vec![] }).map_err(|m| Fail::new("C14:misuse", m))?.clone();
            after.extend(st.reqs.iter().cloned());
            if st.res != RRes::Ok {
                perr = true;
                break;
            }
        }
        exactly_one = !perr && after.len() == 1 && after[0].abs_path == "/probe-c14" && after[0].method == 0 && after[0].custom.is_empty() && after[0].cl == 0 && !after[0].expect && !after[0].chunked;
        if exactly_one && !(reqs.len() == 1 && reqs[0].complete_at == slice.len()) {
            obs.label("connection_consumed_more_than_the_grammar_says");
        }
    }
    if exactly_one {
        let d = &delivered[0];
        let get_with_body = d.method == 0 && d.cl > 0;
        match &one {
            Ok(q) => {
                if get_with_body {
                    return Err(Fail::new("C14:get-body", format!("one-shot parser accepts a GET that declares a body: \"{}\"", esc(slice))));
                }
                if let Some(m) = fields_eq(q, d) {
                    return Err(Fail::new("C14:converse-fields", format!("slice \"{}\": {}", esc(slice), m)));
                }
                obs.label("accepted_both");
            }
            Err(e) => {
                if !get_with_body {
                    return Err(Fail::new("C14:converse-reject", format!("connection turns \"{}\" into exactly one request with nothing left over, one-shot parser rejects it: {:?}", esc(slice), e)));
                }
                obs.label("GET_with_body_only_oneshot_rejects");
            }
        }
    }
    // max_len: Err whenever len >= m, otherwise identical to None
    for m in [slice.len().saturating_sub(1), slice.len(), slice.len() + 1] {
        let r = Request::try_from(slice, Some(m));
        if slice.len() >= m {
            if r.is_ok() {
                return Err(Fail::new("C14:max-len", format!("slice of {} bytes accepted with max_len {}", slice.len(), m)));
            }
        } else {
            match (&r, &one) {
                (Ok(a), Ok(bq)) => {
                    if delivered_of(a) != delivered_of(bq) {
                        return Err(Fail::new("C14:max-len", "result under a non-binding max_len differs".into()));
                    }
                }
                (Err(_), Err(_)) => {}
                _ => return Err(Fail::new("C14:max-len", format!("acceptance changes under non-binding max_len {} for a slice of {} bytes", m, slice.len()))),
            }
        }
    }
    obs.label("max_len_boundary");
    Ok(())
}

fn c14_diff(input: &Input, obs: &mut Obs) -> Result<(), Fail> {
    let mut s = Src::new(input.bytes());
    let mut cfg = GenCfg::new(buf_size(), u32::MAX as usize);
    cfg.corrupt = 10;
    cfg.max_reqs = 1;
    cfg.max_body = 3000;
    let mut notes = Notes::default();
    let mut slice = Vec::new();
    gen_request(&mut s, &cfg, &mut notes, &mut slice);
    match s.weighted(&[10, 3, 2]) {
        0 => {}
        1 => {
            obs.label("trailing_bytes");
            let t: [&[u8]; 4] = [b"x", b"\r\n", b"GET / HTTP/1.1\r\n\r\n", b"\0"];
            slice.extend_from_slice(t[s.below(4)]);
        }
        _ => {
            obs.label("truncated");
            let cut = s.below(slice.len() + 1);
            slice.truncate(cut);
        }
    }
    // how the connection gets the bytes: whole, or in up to three pieces with an idle read
    let ncuts = s.weighted(&[6, 5, 4]);
    let mut cuts: Vec<usize> = Vec::new();
    for k in 0..ncuts {
        if k == 0 && s.chance(100) {
            // exactly at the end of the header block
            if let Some(i) = find_sub(&slice, b"\r\n\r\n") {
                cuts.push(i + 4);
                continue;
            }
        }
        cuts.push(s.below(slice.len() + 1));
    }
    let idle = ncuts > 0 && s.chance(100);
    if ncuts > 0 {
        obs.label("slice_fed_in_pieces");
    }
    c14_check_sched(&slice, &cuts, idle, obs)?;
    obs.nontrivial = find_sub(&slice, b"\r\n").map(|i| slice.len() > i + 4).unwrap_or(false);
    for n in &notes.0 {
        obs.label(n);
    }
    obs.case_hash = Some(fnv64(&slice));
    if obs.want_render {
        obs.render = format!("slice[{}]=\"{}\"", slice.len(), esc(&slice));
    }
    Ok(())
}

/// single-byte edits of canonical slices, exhaustively (as C02's edit family)
const C14_BASES: [&[u8]; 4] = [
    b"GET / HTTP/1.1\r\n\r\n",
    b"PUT /a HTTP/1.0\r\nContent-Length: 3\r\n\r\nabc",
    b"PATCH http://h/p HTTP/1.1\r\nExpect: 100-continue\r\nContent-Length: 2\r\nX-A:b\r\n\r\nxy",
    b"GET /x HTTP/1.1\r\nContent-Length: 1\r\n\r\nz",
];

const C14_TOKENS: [&[u8]; 10] = [b"\r\n", b"\r\n\r\n", b"\n\r", b"\r\r\n", b"\n\n", b"  ", b" \r\n", b"\r\n ", b" HTTP/1.1\r\n", b"\r\nX: y"];

fn c14_edit(input: &Input, obs: &mut Obs) -> Result<(), Fail> {
    let p = input.params();
    let mut slice = C14_BASES[p[0] as usize].to_vec();
    let pos = p[1] as usize;
    match p[2] {
        0 => {
            slice.remove(pos);
        }
        1 => slice[pos] = p[3] as u8,
        2 => slice.insert(pos, p[3] as u8),
        _ => {
            // a short token inserted (line ends, blank lines, blanks, a second version token)
            let tok = C14_TOKENS[p[3] as usize];
            let tail = slice.split_off(pos);
            slice.extend_from_slice(tok);
            slice.extend_from_slice(&tail);
        }
    }
    c14_check(&slice, obs)?;
    obs.nontrivial = true;
    if obs.want_render {
        obs.render = format!("slice=\"{}\"", esc(&slice));
    }
    Ok(())
}

fn c14_edit_enum(_tier: Tier, shard: u64, nshards: u64, f: &mut dyn FnMut(&[u64]) -> bool) {
    let mut i = 0u64;
    for (b, base) in C14_BASES.iter().enumerate() {
        for pos in 0..=base.len() as u64 {
            for op in 0..4u64 {
                if op < 2 && pos as usize >= base.len() {
                    continue;
                }
                let nsym = if op == 0 { 1 } else if op == 3 { C14_TOKENS.len() as u64 } else { 256 };
                for sym in 0..nsym {
                    i += 1;
                    if i % nshards == shard && !f(&[b as u64, pos, op, sym]) {
                        return;
                    }
                }
            }
        }
    }
}

/// every body length: params = [first n of a block of 64]
fn c14_lengths(input: &Input, obs: &mut Obs) -> Result<(), Fail> {
    let p = input.params();
    let mut cnt = 0u64;
    for n in p[0]..p[0] + 64 {
        let n = n as usize;
        for (mi, m) in ["PUT", "PATCH", "GET"].iter().enumerate() {
            for delta in [0i64, -1, 1] {
                let supplied = (n as i64 + delta).max(0) as usize;
                let mut slice = format!("{} /a HTTP/1.{}\r\nContent-Length: {}\r\n\r\n", m, mi % 2, n).into_bytes();
                slice.extend(filler(0, n as u8, supplied));
                let mut o = Obs::default();
                // whole, or cut in the middle of the first line and at the end of the header block, with an idle read
                if n % 3 == 0 {
                    c14_check(&slice, &mut o)?;
                } else {
                    let hdr_end = slice.len() - supplied;
                    c14_check_sched(&slice, &[5, hdr_end], n % 3 == 2, &mut o)?;
                }
                cnt += 1;
            }
        }
    }
    obs.extra_evals = cnt - 1;
    obs.extra_nontrivial = cnt;
    if obs.want_render {
        obs.render = format!("PUT/PATCH/GET with Content-Length n and n-1, n, n+1 body bytes for every n in {}..{}", p[0], p[0] + 63);
    }
    Ok(())
}

fn c14_lengths_enum(tier: Tier, shard: u64, nshards: u64, f: &mut dyn FnMut(&[u64]) -> bool) {
    let max = if tier == Tier::Quick { 3200 } else { 12_800 };
    let mut c = 0u64;
    let mut start = 0u64;
    while start < max {
        c += 1;
        if c % nshards == shard && !f(&[start]) {
            return;
        }
        start += 64;
    }
}

/// one line of every length up to the window (and just beyond), fed with a read boundary before,
/// inside and after its terminator: params = [kind, n]
/// kind 0: the request line (long URI); 1: a header line in the middle of the block; 2: the last
/// header line; 3: a header line right behind a body-less pipelined request (the line does not
/// start at the beginning of the window)
fn c14_linelen(input: &Input, obs: &mut Obs) -> Result<(), Fail> {
    let p = input.params();
    let kind = p[0];
    let n = p[1] as usize;
    let mut cnt = 0u64;
    let mut slice: Vec<u8> = Vec::new();
    let start;
    let line = |prefix: &str, suffix: &str, n: usize| -> Option<Vec<u8>> {
        let fixed = prefix.len() + suffix.len();
        if n < fixed + 1 {
            return None;
        }
        let mut l = prefix.as_bytes().to_vec();
        l.extend(std::iter::repeat(b'p').take(n - fixed));
        l.extend_from_slice(suffix.as_bytes());
        Some(l)
    };
    match kind {
        0 => {
            let l = match line("GET /", " HTTP/1.1", n) {
                Some(l) => l,
                None => return Ok(()),
            };
            start = 0;
            slice.extend_from_slice(&l);
            slice.extend_from_slice(b"\r\nX-A: b\r\n\r\n");
        }
        1 | 2 => {
            let l = match line("X-Pad: ", "", n) {
                Some(l) => l,
                None => return Ok(()),
            };
            slice.extend_from_slice(b"PUT /a HTTP/1.1\r\n");
            if kind == 1 {
                start = slice.len();
                slice.extend_from_slice(&l);
                slice.extend_from_slice(b"\r\nContent-Length: 3\r\n\r\nabc");
            } else {
                slice.extend_from_slice(b"Content-Length: 3\r\n");
                start = slice.len();
                slice.extend_from_slice(&l);
                slice.extend_from_slice(b"\r\n\r\nabc");
            }
        }
        _ => {
            let l = match line("Accept: ", "", n) {
                Some(l) => l,
                None => return Ok(()),
            };
            slice.extend_from_slice(b"GET / HTTP/1.0\r\n");
            start = slice.len();
            slice.extend_from_slice(&l);
            slice.extend_from_slice(b"\r\n\r\n");
        }
    }
    let cr = start + n;
    let mid = start + n / 2;
    let cutsets: [Vec<usize>; 8] = [
        vec![],
        vec![cr],
        vec![cr + 1],
        vec![cr + 2],
        vec![mid, cr],
        vec![mid, cr + 1],
        vec![mid, cr + 2],
        vec![start, cr + 1],
    ];
    for cuts in cutsets.iter() {
        for idle in [false, true] {
            if cuts.is_empty() && idle {
                continue;
            }
            let mut o = Obs::default();
            if cuts.is_empty() {
                c14_check(&slice, &mut o)?;
            } else {
                c14_check_sched(&slice, cuts, idle, &mut o)?;
            }
            cnt += 1;
        }
    }
    obs.extra_evals = cnt.saturating_sub(1);
    obs.extra_nontrivial = cnt;
    if obs.want_render {
        obs.render = format!("line kind {} of {} bytes; read boundaries before/inside/after its CR LF, with and without an earlier mid-line boundary and an idle read", kind, n);
    }
    Ok(())
}

fn c14_linelen_enum(_tier: Tier, shard: u64, nshards: u64, f: &mut dyn FnMut(&[u64]) -> bool) {
    let b = buf_size() as u64;
    let mut c = 0u64;
    for kind in 0..4u64 {
        for n in 1..=b + 3 {
            c += 1;
            if c % nshards == shard && !f(&[kind, n]) {
                return;
            }
        }
    }
}

fn c14_plan(tier: Tier) -> Vec<Job> {
    let q = tier == Tier::Quick;
    vec![
        Job { sub: "diff", kind: JobKind::Pbt { cases: if q { 500_000 } else { 8_000_000 }, max_len: 300 }, smallbuf: false },
        Job { sub: "edit", kind: JobKind::Enum { f: c14_edit_enum, bound: "4 canonical slices x every byte position x {delete, replace by each of the 256 byte values, insert each of the 256 byte values}" }, smallbuf: false },
        Job { sub: "lengths", kind: JobKind::Enum { f: c14_lengths_enum, bound: "3 methods x every Content-Length n in 0..3199 (thorough: 0..12799) x body of n-1, n, n+1 bytes" }, smallbuf: false },
        Job { sub: "linelen", kind: JobKind::Enum { f: c14_linelen_enum, bound: "4 line kinds x every line length 1..B+3 x 8 placements of read boundaries around the line's CR LF x idle read or not (B=1024)" }, smallbuf: false },
        Job { sub: "linelen", kind: JobKind::Enum { f: c14_linelen_enum, bound: "the same with B=32" }, smallbuf: true },
    ]
}

pub fn c14() -> PropDef {
    PropDef {
        id: "C14",
        subs: vec![("diff", c14_diff), ("edit", c14_edit), ("raw", crate::props::raw::c14_raw), ("lengths", c14_lengths), ("linelen", c14_linelen)],
        plan: c14_plan,
        rule: "case = one byte slice from the request grammar with corruptions, with/without trailing bytes or truncation; oracle = differential between Request::try_from and an HttpConnection fed the slice (payload limit 2^32-1, whole-window reads): forward (accepted => same first request), converse (exactly one request with nothing left => accepted with the same fields, except GET declaring a body), and the max_len rule at len-1/len/len+1; REF referees comparability (line limit); non-trivial = the slice has >=1 byte after its first CRLF beyond the blank line; sub 'linelen': 4 line kinds x every line length 1..B+3 x 8 placements of read boundaries around the line's CR LF x idle read or not, for B=1024 and B=32",
        assumptions: vec!["slices whose first request has a line longer than the receive window are outside the comparable set (the statement says 'within the line and payload limits')"],
        single_threaded_world: false,
    }
}

#[allow(dead_code)]
fn unused(_: &StatusCode, _: usize) -> usize {
    DEFAULT_LIMIT
}
