//! Connection-level properties decided through the REF prefix oracle:
//! C01 (segmentation independence), C02 (grammar), C04 (limits, connection part),
//! C13 (100 Continue, connection part).

use std::cell::RefCell;
use std::collections::HashMap;

use crate::connrun::*;
use crate::engine::*;
use crate::gen::*;
use crate::refparse::*;
use crate::respread::{rr_parse, RrEnd};
use crate::src::{esc, fnv64, filler, Src};
use crate::stream::{ReadEv, WriteEv};
use crate::{buf_size, DEFAULT_LIMIT};

pub const LIMITS: [Option<usize>; 17] = [
    None,
    Some(0),
    Some(1),
    Some(2),
    Some(3),
    Some(5),
    Some(8),
    Some(1023),
    Some(1024),
    Some(1025),
    Some(51199),
    Some(51200),
    Some(51201),
    Some(u32::MAX as usize),
    // limits a u32 cannot hold: nothing can exceed them
    Some(1usize << 32),
    Some((1usize << 32) + 4),
    Some(usize::MAX),
];

pub fn pick_limit(s: &mut Src, mostly_default: bool) -> Option<usize> {
    if mostly_default {
        let i = s.weighted(&[40, 2, 2, 2, 2, 3, 3, 3, 3, 3, 2, 2, 2, 2, 1, 1, 1]);
        LIMITS[i]
    } else {
        LIMITS[s.below(LIMITS.len())]
    }
}

pub fn eff(l: Option<usize>) -> usize {
    l.unwrap_or(DEFAULT_LIMIT)
}

/// Which mismatch classes a property owns.
#[derive(Clone, Copy)]
pub struct Focus {
    pub delivery: bool,
    pub errors: bool,
    pub size_errors: bool,
    pub interim: bool,
    pub emptyread: bool,
    pub panics: bool,
}

pub const F_C01: Focus = Focus { delivery: true, errors: true, size_errors: true, interim: false, emptyread: true, panics: true };
pub const F_C02: Focus = Focus { delivery: true, errors: true, size_errors: true, interim: false, emptyread: false, panics: true };
pub const F_C04: Focus = Focus { delivery: false, errors: false, size_errors: true, interim: false, emptyread: false, panics: false };
pub const F_C13: Focus = Focus { delivery: false, errors: false, size_errors: false, interim: true, emptyread: false, panics: false };

fn on_topic(f: &Focus, sig: &str, msg: &str, end: &End) -> bool {
    let size_related = || {
        msg.contains("SizeLimitExceeded")
            || matches!(end, End::Error { err: RefErr::Payload { .. }, .. })
            || matches!(end, End::Error { err: RefErr::ReqLineTooLong, .. })
            || matches!(end, End::Error { err: RefErr::Header(HFault::LineTooLong), .. })
    };
    match sig {
        "delivery-count" | "delivery-content" => f.delivery,
        "error-kind" | "spurious-error" | "missed-error" => f.errors || (f.size_errors && size_related()),
        "interim-garbage" | "interim-kind" | "interim-count" => f.interim,
        "empty-read-result" | "empty-read-effect" | "eof-result" | "eof-effect" | "read-result" => f.emptyread,
        "panic" | "recv-count" | "stream-misuse" => f.panics,
        "harness-window" => true,
        "harness-prelude" => false,
        _ => true,
    }
}

pub struct ConnCaseResult {
    pub info: RunInfo,
    pub offtopic: bool,
}

/// Run one (stream, limit, schedule) under the prefix oracle with a property's focus.
pub fn run_focus(
    prop: &str,
    focus: &Focus,
    stream: &[u8],
    reqs: &[RefRequest],
    end: &End,
    limit: Option<usize>,
    check_100: bool,
    sched: &mut dyn FnMut(usize, usize, usize) -> ReadEv,
) -> Result<ConnCaseResult, Fail> {
    run_focus_after(prop, focus, stream, reqs, end, limit, check_100, sched, &[])
}

/// same, after a prelude chunk that ends in a parse error (delivered in one read of its own)
pub fn run_focus_after(
    prop: &str,
    focus: &Focus,
    stream: &[u8],
    reqs: &[RefRequest],
    end: &End,
    limit: Option<usize>,
    check_100: bool,
    sched: &mut dyn FnMut(usize, usize, usize) -> ReadEv,
    prelude: &[u8],
) -> Result<ConnCaseResult, Fail> {
    match drive_prefix(stream, reqs, end, limit, buf_size(), check_100, sched, 4 * stream.len() + 64, prelude) {
        Ok(info) => Ok(ConnCaseResult { info, offtopic: false }),
        Err((sig, msg)) => {
            // an error raised, out of the blue, by the read that completes the header block of a
            // request that asks for (and is entitled to) an interim response takes that response
            // away: on topic for the interim-response property
            let refuses_qualifying = focus.interim && sig == "spurious-error" && {
                let n: usize = msg.split(" after ").nth(1).and_then(|t| t.split(' ').next()).and_then(|t| t.parse().ok()).unwrap_or(usize::MAX);
                n != usize::MAX && reqs.iter().any(|r| r.wants_continue && r.headers_done_at <= n && n - r.headers_done_at < buf_size())
            };
            if refuses_qualifying {
                return Err(Fail::new(&format!("{}:interim-refused", prop), format!("a request entitled to 100 Continue was rejected instead: {}", msg)));
            }
            if on_topic(focus, &sig, &msg, end) {
                Err(Fail::new(&format!("{}:{}", prop, sig), msg))
            } else {
                Ok(ConnCaseResult { info: RunInfo::default(), offtopic: true })
            }
        }
    }
}

pub fn render_conn(stream: &[u8], limit: Option<usize>, info: &RunInfo, end: &End, nreq: usize) -> String {
    format!(
        "limit={:?} stream[{}]=\"{}\"\nreads={:?}\nREF: {} request(s), end={:?}\ndelivered={} error={:?}",
        limit,
        stream.len(),
        esc(stream),
        &info.reads_desc[..info.reads_desc.len().min(80)],
        nreq,
        end,
        info.delivered,
        info.error
    )
}

pub fn sched_from_src<'a, 'b: 'a>(s: &'a mut Src<'b>, stream: &'a [u8], bounds: &'a [usize], faults: u32) -> impl FnMut(usize, usize, usize) -> ReadEv + use<'a, 'b> {
    let minwant = if stream.len() > 8192 { stream.len() / 256 } else { 1 };
    move |consumed, total, window| {
        let ctx = SchedCtx { consumed, total, window, bounds };
        match next_read(s, &ctx, faults) {
            ReadEv::Data { want, fds } => ReadEv::Data { want: want.max(minwant), fds },
            e => e,
        }
    }
}

pub fn ref_bounds(stream: &[u8], reqs: &[RefRequest]) -> Vec<usize> {
    let mut extra = Vec::new();
    for r in reqs {
        extra.push(r.headers_done_at);
        if r.complete_at != usize::MAX {
            extra.push(r.complete_at);
        }
    }
    boundaries(stream, &extra)
}

pub fn flat(info: &RunInfo) -> (Vec<Delivered>, Option<PKind>) {
    let mut d = Vec::new();
    let mut e = None;
    for (rs, k) in &info.transcript {
        d.extend(rs.iter().cloned());
        if k.is_some() {
            e = k.clone();
        }
    }
    (d, e)
}

// ---------------------------------------------------------------------------------------
// C01

/// E1: one stream from the grammar, a whole-window baseline and 3 random schedules.
fn c01_sched(input: &Input, obs: &mut Obs) -> Result<(), Fail> {
    let mut s = Src::new(input.bytes());
    let limit = pick_limit(&mut s, true);
    let mut cfg = GenCfg::new(buf_size(), eff(limit));
    cfg.corrupt = 3;
    let (stream, notes) = gen_stream(&mut s, &cfg);
    let (reqs, end) = ref_parse(&stream, buf_size(), eff(limit));
    let bounds = ref_bounds(&stream, &reqs);
    // baseline: whole-window reads
    let base = run_focus("C01", &F_C01, &stream, &reqs, &end, limit, false, &mut |_, _, w| ReadEv::Data { want: w.max(1), fds: vec![] })?;
    if base.offtopic {
        obs.label("offtopic_mismatch");
        return Ok(());
    }
    let base_flat = flat(&base.info);
    let mut any_nontrivial = false;
    let mut last = base.info.clone();
    for _k in 0..3 {
        // now and then the owner answers what it is handed and writes (or fails to write) between
        // the reads: the send side has no say in what is delivered
        let auto = if s.chance(50) { Some(s.u32() | 1) } else { None };
        let fail = if auto.is_some() && s.chance(110) { s.u32() & s.u32() } else { 0 };
        AUTO_RESPOND.with(|c| c.set(auto));
        AUTO_FAIL.with(|c| c.set(fail));
        if auto.is_some() {
            obs.label("responses_written_between_reads");
        }
        if fail != 0 {
            obs.label("failed_writes_between_reads");
        }
        let r = {
            let mut sch = sched_from_src(&mut s, &stream, &bounds, 40);
            let r = run_focus("C01", &F_C01, &stream, &reqs, &end, limit, false, &mut sch);
            AUTO_RESPOND.with(|c| c.set(None));
            AUTO_FAIL.with(|c| c.set(0));
            r?
        };
        if r.offtopic {
            obs.label("offtopic_mismatch");
            return Ok(());
        }
        let fl = flat(&r.info);
        if fl != base_flat {
            return Err(Fail::new(
                "C01:schedule-dependence",
                format!(
                    "same stream, two segmentations, different transcripts:\n whole-window reads -> {} req, err {:?}\n reads {:?} -> {} req, err {:?}",
                    base_flat.0.len(), base_flat.1, r.info.reads_desc, fl.0.len(), fl.1
                ),
            ));
        }
        if (r.info.delivered > 0 || r.info.error.is_some()) && r.info.data_reads >= 2 && r.info.cut_inside_element {
            any_nontrivial = true;
        }
        for l in &r.info.labels {
            obs.label(l);
        }
        last = r.info;
    }
    for n in &notes.0 {
        obs.label(n);
    }
    if reqs.iter().filter(|r| r.complete_at != usize::MAX).count() >= 2 {
        obs.label("pipelined");
    }
    if let End::Error { .. } = end {
        obs.label("stream_has_error");
    }
    obs.nontrivial = any_nontrivial;
    obs.case_hash = Some(fnv64(&stream) ^ fnv64(format!("{:?}{:?}", limit, last.reads_desc).as_bytes()));
    if obs.want_render {
        obs.render = render_conn(&stream, limit, &last, &end, reqs.len());
    }
    Ok(())
}

// grammar streams for the exhaustive single-cut family (B = 1024)
thread_local! {
    static STREAM_CACHE: RefCell<HashMap<u64, std::rc::Rc<(Vec<u8>, Vec<RefRequest>, End)>>> = RefCell::new(HashMap::new());
}

fn grammar_stream(idx: u64) -> std::rc::Rc<(Vec<u8>, Vec<RefRequest>, End)> {
    STREAM_CACHE.with(|c| {
        if let Some(v) = c.borrow().get(&idx) {
            return v.clone();
        }
        let seedbytes = filler(1, (idx & 0xff) as u8, 16)
            .into_iter()
            .chain(filler(1, ((idx >> 8) & 0xff) as u8 ^ 0x5a, 600))
            .collect::<Vec<u8>>();
        let mut s = Src::new(&seedbytes);
        let mut cfg = GenCfg::new(buf_size(), DEFAULT_LIMIT);
        cfg.corrupt = if idx % 3 == 0 { 8 } else { 0 };
        cfg.max_body = 2400;
        cfg.max_reqs = 4;
        let (mut stream, _) = gen_stream(&mut s, &cfg);
        stream.truncate(2600);
        let (reqs, end) = ref_parse(&stream, buf_size(), DEFAULT_LIMIT);
        let v = std::rc::Rc::new((stream, reqs, end));
        if c.borrow().len() > 64 {
            c.borrow_mut().clear();
        }
        c.borrow_mut().insert(idx, v.clone());
        v
    })
}

/// schedule that makes `targets` read boundaries; `fault_after` = (target index, kind)
fn cut_sched(targets: Vec<usize>, fault_after: Option<(usize, u8)>) -> impl FnMut(usize, usize, usize) -> ReadEv {
    let mut fault_done = false;
    move |consumed, total, window| {
        if let Some((ti, kind)) = fault_after {
            if !fault_done && ti < targets.len() && consumed == targets[ti] {
                fault_done = true;
                return if kind == 1 { ReadEv::Eagain } else { ReadEv::Eintr };
            }
        }
        let next = targets.iter().copied().find(|t| *t > consumed).unwrap_or(total);
        let want = (next - consumed).min(window.max(1));
        ReadEv::Data { want, fds: vec![] }
    }
}

/// E2-1024: params = [stream index, cut position, fault mode 0/1/2]
fn c01_cut1(input: &Input, obs: &mut Obs) -> Result<(), Fail> {
    let p = input.params();
    let g = grammar_stream(p[0]);
    let (stream, reqs, end) = (&g.0, &g.1, &g.2);
    let cut = (p[1] as usize).min(stream.len());
    let mode = p[2] as u8;
    let mut sch = cut_sched(vec![cut], if mode == 0 { None } else { Some((0, mode)) });
    let r = run_focus("C01", &F_C01, stream, reqs, end, None, false, &mut sch)?;
    if r.offtopic {
        obs.label("offtopic_mismatch");
        return Ok(());
    }
    obs.nontrivial = (r.info.delivered > 0 || r.info.error.is_some()) && r.info.data_reads >= 2 && r.info.cut_inside_element;
    for l in &r.info.labels {
        obs.label(l);
    }
    if obs.want_render {
        obs.render = format!("stream#{} cut={} fault_mode={}\n{}", p[0], cut, mode, render_conn(stream, None, &r.info, end, reqs.len()));
    }
    Ok(())
}

fn c01_cut1_enum(tier: Tier, shard: u64, nshards: u64, f: &mut dyn FnMut(&[u64]) -> bool) {
    let nstreams: u64 = if tier == Tier::Quick { 96 } else { 2000 };
    for si in 0..nstreams {
        if si % nshards != shard {
            continue;
        }
        let g = grammar_stream(si);
        let n = g.0.len() as u64;
        for cut in 0..=n {
            if !f(&[si, cut, 0]) {
                return;
            }
            // a would-block / interrupted read at the cut, for a third of the positions
            if cut % 3 == si % 3 {
                if !f(&[si, cut, 1 + (cut % 2)]) {
                    return;
                }
            }
        }
    }
}

// ---- small-buffer piece alphabet (B = 32) ------------------------------------------------

pub const RLINES: [&[u8]; 5] = [
    b"GET / HTTP/1.1\r\n",                   // 16
    b"PUT /aaaaaaaaaaaaaaaaa HTTP/1.0\r\n",  // 32: exactly the window
    b"PUT /aaaaaaaaaaaaaaaa HTTP/1.0\r\n",   // 31
    b"PUT /aaaaaaaaaaaaaaaaaa HTTP/1.0\r\n", // 33: one too long
    b"PATCH /p HTTP/1.1\r\n",                // 19
];

pub const HLINES: [&[u8]; 12] = [
    b"Content-Length: 2\r\n",
    b"Content-Length: 5\r\n",
    b"Content-Length: 40\r\n",
    b"Expect: 100-continue\r\n",
    b"X-A: b\r\n",
    b"X-Padddddddddddddddddddddddd: 1\r\n",  // 32
    b"X-Paddddddddddddddddddddddd: 1\r\n",   // 31
    b"X-Paddddddddddddddddddddddddd: 1\r\n", // 33
    b"Content-Length: 0\r\n",
    b"nocolon\r\n",
    b"Accept: application/json\r\n",
    b"content-length:  +2 \r\n",
];

pub fn small_body(n: usize, variant: u64) -> Vec<u8> {
    let pat: &[u8] = if variant % 2 == 0 { b"\r\n\r\nGET / HTTP/1.1\r\n\r\nxyz" } else { b"abcdefghijklmnopqrstuvwxyz" };
    (0..n).map(|i| pat[i % pat.len()]).collect()
}

fn cl_of_headers(hs: &[usize]) -> usize {
    let mut n = 0;
    for h in hs {
        n = match *h {
            0 | 11 => 2,
            1 => 5,
            2 => 40,
            8 => 0,
            _ => n,
        };
    }
    n
}

/// one request from piece indices; body supplied per the last Content-Length piece
pub fn small_request(r: usize, hs: &[usize], variant: u64) -> Vec<u8> {
    let mut v = RLINES[r].to_vec();
    for h in hs {
        v.extend_from_slice(HLINES[*h]);
    }
    v.extend_from_slice(b"\r\n");
    v.extend_from_slice(&small_body(cl_of_headers(hs), variant));
    v
}

/// The finite stream family for B=32: (bytes, limit).
pub fn small_streams(tier: Tier) -> Vec<(Vec<u8>, Option<usize>)> {
    let mut out: Vec<(Vec<u8>, Option<usize>)> = Vec::new();
    let nh = HLINES.len();
    let maxh = if tier == Tier::Quick { 2 } else { 3 };
    let mut seqs: Vec<Vec<usize>> = vec![vec![]];
    let mut frontier: Vec<Vec<usize>> = vec![vec![]];
    for _ in 0..maxh {
        let mut next = Vec::new();
        for s in &frontier {
            for h in 0..nh {
                let mut t = s.clone();
                t.push(h);
                next.push(t);
            }
        }
        seqs.extend(next.iter().cloned());
        frontier = next;
    }
    for r in 0..RLINES.len() {
        for (i, hs) in seqs.iter().enumerate() {
            if tier == Tier::Quick && hs.len() == 2 && (r == 2 || r == 3) && i % 4 != 0 {
                continue;
            }
            let req = small_request(r, hs, i as u64);
            out.push((req.clone(), None));
            if cl_of_headers(hs) >= 5 {
                out.push((req, Some(4)));
            }
        }
    }
    // pairs of pipelined requests
    let firsts: [(usize, &[usize]); 8] = [(0, &[]), (0, &[4]), (4, &[0]), (4, &[1]), (4, &[3, 1]), (1, &[2]), (2, &[5, 0]), (0, &[6])];
    let seconds: [(usize, &[usize]); 8] = [(0, &[]), (4, &[0]), (4, &[3, 1]), (1, &[]), (3, &[]), (0, &[7]), (0, &[9]), (2, &[6, 1])];
    for (i, (r1, h1)) in firsts.iter().enumerate() {
        for (j, (r2, h2)) in seconds.iter().enumerate() {
            let mut v = small_request(*r1, h1, i as u64);
            v.extend_from_slice(&small_request(*r2, h2, j as u64));
            // a third request behind, to see what follows a body/next-request boundary
            if (i + j) % 3 == 0 {
                v.extend_from_slice(&small_request(0, &[], 0));
            }
            out.push((v, None));
        }
    }
    out
}

thread_local! {
    static SMALL: RefCell<Option<(Tier, std::rc::Rc<Vec<(Vec<u8>, Option<usize>, Vec<RefRequest>, End)>>)>> = RefCell::new(None);
}

pub fn small_family(tier: Tier) -> std::rc::Rc<Vec<(Vec<u8>, Option<usize>, Vec<RefRequest>, End)>> {
    SMALL.with(|c| {
        if let Some((t, v)) = c.borrow().as_ref() {
            if *t == tier {
                return v.clone();
            }
        }
        let v: Vec<_> = small_streams(tier)
            .into_iter()
            .map(|(s, l)| {
                let (reqs, end) = ref_parse(&s, buf_size(), eff(l));
                (s, l, reqs, end)
            })
            .collect();
        let v = std::rc::Rc::new(v);
        *c.borrow_mut() = Some((tier, v.clone()));
        v
    })
}

/// params = [tier(0/1), stream index, cut1, cut2, fault mode]
pub fn small_cut2(prop: &'static str, focus: &Focus, check_100: bool, input: &Input, obs: &mut Obs) -> Result<(), Fail> {
    let p = input.params();
    let tier = if p[0] == 0 { Tier::Quick } else { Tier::Thorough };
    let fam = small_family(tier);
    let (stream, limit, reqs, end) = &fam[p[1] as usize];
    let (c1, c2, mode) = (p[2] as usize, p[3] as usize, p[4] as u8);
    let fault = match mode {
        0 => None,
        1 => Some((0usize, 1u8)),
        2 => Some((1, 2)),
        _ => Some((0, 2)),
    };
    let mut sch = cut_sched(vec![c1, c2], fault);
    let r = run_focus(prop, focus, stream, reqs, end, *limit, check_100, &mut sch)?;
    if r.offtopic {
        obs.label("offtopic_mismatch");
        return Ok(());
    }
    obs.nontrivial = (r.info.delivered > 0 || r.info.error.is_some() || !r.info.out.is_empty()) && r.info.data_reads >= 2;
    for l in &r.info.labels {
        obs.label(l);
    }
    if !r.info.out.is_empty() {
        obs.label("interim_sent");
    }
    if obs.want_render {
        obs.render = format!("B=32 cuts=({},{}) fault_mode={}\n{}", c1, c2, mode, render_conn(stream, *limit, &r.info, end, reqs.len()));
    }
    Ok(())
}

pub fn small_cut2_enum(tier: Tier, shard: u64, nshards: u64, f: &mut dyn FnMut(&[u64]) -> bool) {
    let fam = small_family(tier);
    let t = if tier == Tier::Quick { 0 } else { 1 };
    for (si, (stream, _, _, _)) in fam.iter().enumerate() {
        if si as u64 % nshards != shard {
            continue;
        }
        let n = stream.len() as u64;
        for c1 in 0..=n {
            for c2 in c1..=n {
                if !f(&[t, si as u64, c1, c2, 0]) {
                    return;
                }
            }
            // every single would-block / interrupt placement at a cut
            if !f(&[t, si as u64, c1, c1, 1]) {
                return;
            }
            if !f(&[t, si as u64, c1, c1, 3]) {
                return;
            }
        }
    }
}

fn c01_e2_32(input: &Input, obs: &mut Obs) -> Result<(), Fail> {
    small_cut2("C01", &F_C01, false, input, obs)
}

/// E2-1024 alignment sweep: params = [template, pad, mode]
pub fn sweep_stream(template: u64, pad: usize) -> Vec<u8> {
    let mut v = Vec::new();
    match template {
        0 => {
            v.extend_from_slice(b"GET /");
            v.extend(std::iter::repeat(b'u').take(pad));
            v.extend_from_slice(b" HTTP/1.1\r\n\r\nGET /second HTTP/1.1\r\n\r\n");
        }
        1 => {
            v.extend_from_slice(b"PUT /a HTTP/1.1\r\nX-Pad: ");
            v.extend(std::iter::repeat(b'p').take(pad));
            v.extend_from_slice(b"\r\nContent-Length: 5\r\n\r\nhelloGET /second HTTP/1.1\r\nX-K: v\r\n\r\n");
        }
        2 => {
            v.extend_from_slice(b"PATCH /a HTTP/1.0\r\nX-Pad: ");
            v.extend(std::iter::repeat(b'p').take(pad));
            v.extend_from_slice(b"\r\nExpect: 100-continue\r\nContent-Length: 10\r\n\r\n0123456789GET /second HTTP/1.1\r\n\r\n");
        }
        3 => {
            v.extend_from_slice(format!("PUT /a HTTP/1.1\r\nContent-Length: {}\r\n\r\n", pad).as_bytes());
            v.extend(crate::src::filler(2, 3, pad));
            v.extend_from_slice(b"GET /second HTTP/1.1\r\n\r\n");
        }
        _ => {
            // two pad headers: the first fills most of a window, the second straddles it
            v.extend_from_slice(b"GET /a HTTP/1.1\r\nX-One: ");
            v.extend(std::iter::repeat(b'1').take(900));
            v.extend_from_slice(b"\r\nX-Two: ");
            v.extend(std::iter::repeat(b'2').take(pad));
            v.extend_from_slice(b"\r\n\r\nGET /second HTTP/1.1\r\n\r\n");
        }
    }
    v
}

pub fn sweep_mode_sched(mode: u64) -> impl FnMut(usize, usize, usize) -> ReadEv {
    move |_c, _t, w| {
        let want = match mode {
            0 => w.max(1),
            1 => 1000,
            2 => 333,
            3 => 1023,
            _ => 7,
        };
        ReadEv::Data { want, fds: vec![] }
    }
}

pub fn sweep_case(prop: &'static str, focus: &Focus, check_100: bool, input: &Input, obs: &mut Obs) -> Result<(), Fail> {
    let p = input.params();
    let stream = sweep_stream(p[0], p[1] as usize);
    let (reqs, end) = ref_parse(&stream, buf_size(), DEFAULT_LIMIT);
    let r = if p[2] == 5 {
        // mode 5: the first header block alone, then whole-window reads
        let hdr_end = stream.windows(4).position(|w| w == b"\r\n\r\n").map(|i| i + 4).unwrap_or(stream.len());
        let mut sch = cut_sched(vec![hdr_end], None);
        run_focus(prop, focus, &stream, &reqs, &end, None, check_100, &mut sch)?
    } else {
        let mut sch = sweep_mode_sched(p[2]);
        run_focus(prop, focus, &stream, &reqs, &end, None, check_100, &mut sch)?
    };
    if r.offtopic {
        obs.label("offtopic_mismatch");
        return Ok(());
    }
    obs.nontrivial = r.info.data_reads >= 2 && (r.info.labels.contains(&"window_filled") || r.info.labels.contains(&"partial_line_carried"));
    for l in &r.info.labels {
        obs.label(l);
    }
    if obs.want_render {
        obs.render = format!("template={} pad={} mode={}\n{}", p[0], p[1], p[2], render_conn(&stream, None, &r.info, &end, reqs.len()));
    }
    Ok(())
}

pub fn sweep_enum(tier: Tier, shard: u64, nshards: u64, f: &mut dyn FnMut(&[u64]) -> bool) {
    let mut i = 0u64;
    let ranges: [(u64, u64, u64); 5] = [(0, 960, 1040), (1, 0, 1100), (2, 0, 1100), (3, 0, 4200), (4, 60, 180)];
    for (t, lo, hi) in ranges {
        for pad in lo..=hi {
            let modes: &[u64] = if tier == Tier::Quick { &[0, 1, 5] } else { &[0, 1, 2, 3, 4, 5] };
            for m in modes {
                i += 1;
                if i % nshards != shard {
                    continue;
                }
                if !f(&[t, pad, *m]) {
                    return;
                }
            }
        }
    }
}

fn c01_sweep(input: &Input, obs: &mut Obs) -> Result<(), Fail> {
    sweep_case("C01", &F_C01, false, input, obs)
}

fn c01_plan(tier: Tier) -> Vec<Job> {
    let q = tier == Tier::Quick;
    vec![
        Job { sub: "sched", kind: JobKind::Pbt { cases: if q { 100_000 } else { 2_000_000 }, max_len: 1200 }, smallbuf: false },
        Job { sub: "defer", kind: JobKind::Pbt { cases: if q { 6_000 } else { 100_000 }, max_len: 300 }, smallbuf: false },
        Job { sub: "cut1", kind: JobKind::Enum { f: c01_cut1_enum, bound: "grammar streams #0..N (<=2600 bytes) x every single cut position x {no fault, EAGAIN/EINTR at the cut (1/3 of positions)}, B=1024" }, smallbuf: false },
        Job { sub: "sweep", kind: JobKind::Enum { f: sweep_enum, bound: "5 templates x every pad length in the stated ranges x fixed read sizes, B=1024" }, smallbuf: false },
        Job { sub: "e2_32", kind: JobKind::Enum { f: small_cut2_enum, bound: "B=32: all streams of the piece family (5 request lines x all header sequences of length <=2 (quick) / <=3 (thorough) over 12 header pieces, 64 pipelined pairs) x every pair of cut positions x every single EAGAIN/EINTR placement" }, smallbuf: true },
        Job { sub: "sched", kind: JobKind::Pbt { cases: if q { 10_000 } else { 200_000 }, max_len: 600 }, smallbuf: true },
    ]
}

pub fn c01() -> PropDef {
    PropDef {
        id: "C01",
        subs: vec![("sched", c01_sched), ("cut1", c01_cut1), ("sweep", c01_sweep), ("e2_32", c01_e2_32), ("raw", crate::props::raw::c01_raw), ("defer", c01_defer)],
        plan: c01_plan,
        rule: "case = (byte stream from the request grammar with corruptions/truncation, payload limit, read schedule incl. EAGAIN/EINTR reads); oracle = REF in prefix form after every read + equality of transcripts across schedules; non-trivial = the stream delivers >=1 request or an error AND the schedule has >=2 data reads with >=1 cut strictly inside an element; distinct = hash of (stream, limit, read sizes)",
        assumptions: vec![
            "the scripted stream honours the ScmSocket contract (never more bytes than the iovec holds)",
            "Content-Length accepts an optional leading '+' (what u32::from_str accepts); see DESIGN 2.2",
            "the URI is compared through get_abs_path() and the Debug rendering of Uri (no public accessor)",
        ],
        single_threaded_world: false,
    }
}

// ---------------------------------------------------------------------------------------
// C02

/// The owner need not pop after every read: whatever is queued inside the connection, every
/// request of the grammar that has been received is delivered, in order, once popped.
/// Bursts of small requests over several reads, nothing popped until the end.
fn c02_defer(input: &Input, obs: &mut Obs) -> Result<(), Fail> {
    defer_burst("C02", 20, input, obs)
}

/// the same with the owner popping one or a few requests after most reads (stream order must
/// survive any pop pacing)
fn c01_defer(input: &Input, obs: &mut Obs) -> Result<(), Fail> {
    defer_burst("C01", 150, input, obs)
}

fn defer_burst(prop: &str, pop_chance: u32, input: &Input, obs: &mut Obs) -> Result<(), Fail> {
    let mut s = Src::new(input.bytes());
    let k = match s.weighted(&[3, 4, 3]) {
        0 => s.range(2, 20),
        1 => s.range(60, 140),
        _ => s.range(140, 400),
    };
    let mut stream = Vec::new();
    for i in 0..k {
        match s.weighted(&[10, 3, 2]) {
            0 => stream.extend_from_slice(format!("GET /{} HTTP/1.{}\r\n\r\n", i, i % 2).as_bytes()),
            1 => stream.extend_from_slice(format!("PUT /{} HTTP/1.1\r\nContent-Length: 2\r\n\r\nhi", i).as_bytes()),
            _ => stream.extend_from_slice(format!("PATCH /{} HTTP/1.0\r\nX-A: {}\r\nExpect: 100-continue\r\nContent-Length: 1\r\n\r\nz", i, i).as_bytes()),
        }
    }
    let (reqs, end) = ref_parse(&stream, buf_size(), DEFAULT_LIMIT);
    if matches!(end, End::Error { .. }) {
        return Err(Fail::new("harness-gen", "the burst is not error-free by the reference".into()));
    }
    let mut run = ConnRun::new(stream.clone(), None, false);
    run.keep = true;
    run.defer_pop = true;
    let sizes = [7usize, 100, 500, 1024, 1024, 1024];
    let mut guard = 0;
    while run.remaining() > 0 && guard < 8 * stream.len() + 64 {
        guard += 1;
        let want = sizes[s.below(sizes.len())];
        let st = run.read(ReadEv::Data { want, fds: vec![] }).map_err(|m| Fail::new(&format!("{}:stream-misuse", prop), m))?.clone();
        match &st.res {
            RRes::Ok => {}
            RRes::Panic(m) => return Err(Fail::new(&format!("{}:panic", prop), m.clone())),
            other => return Err(Fail::new(&format!("{}:spurious-error", prop), format!("a burst of {} well-formed requests, none popped yet: try_read returned {:?} after {} bytes", k, other, run.consumed))),
        }
        // now and then the owner takes a few
        if s.chance(pop_chance) {
            run.pop_some(s.range(1, 3)).map_err(|m| Fail::new(&format!("{}:panic", prop), m))?;
        }
    }
    run.pop_some(usize::MAX).map_err(|m| Fail::new(&format!("{}:panic", prop), m))?;
    let want: Vec<&RefRequest> = reqs.iter().filter(|r| r.complete_at != usize::MAX).collect();
    if run.kept.len() != want.len() {
        return Err(Fail::new(&format!("{}:delivery-count", prop), format!("{} well-formed requests received ({} bytes, all read), {} delivered once the owner pops", want.len(), stream.len(), run.kept.len())));
    }
    for (i, ((_, rq), r)) in run.kept.iter().zip(want.iter()).enumerate() {
        if let Some(m) = diff_delivered(&delivered_of(rq), r) {
            return Err(Fail::new(&format!("{}:delivery-content", prop), format!("request #{} of the burst: {}", i, m)));
        }
    }
    if k > 64 {
        obs.label("more_than_64_requests_queued");
    }
    obs.nontrivial = k >= 2;
    if obs.want_render {
        obs.render = format!("burst of {} requests, {} bytes", k, stream.len());
    }
    Ok(())
}

pub fn c02_subs_extra() -> (&'static str, SubFn) {
    ("defer", c02_defer)
}

fn c02_grammar(input: &Input, obs: &mut Obs) -> Result<(), Fail> {
    let mut s = Src::new(input.bytes());
    let limit = pick_limit(&mut s, true);
    let mut cfg = GenCfg::new(buf_size(), eff(limit));
    cfg.corrupt = 36;
    cfg.max_reqs = 4;
    let (stream, notes) = gen_stream(&mut s, &cfg);
    let (reqs, end) = ref_parse(&stream, buf_size(), eff(limit));
    let bounds = ref_bounds(&stream, &reqs);
    let r = {
        // a few idle (would-block / interrupted) reads in between: they must not change what is
        // accepted, delivered or rejected afterwards
        // now and then the owner answers what it is handed and writes between reads: what the
        // connection accepts, delivers and rejects does not depend on it
        let auto = if s.chance(60) { Some(s.u32() | 1) } else { None };
        let fail = if auto.is_some() && s.chance(100) { s.u32() & s.u32() } else { 0 };
        struct Reset;
        impl Drop for Reset {
            fn drop(&mut self) {
                AUTO_RESPOND.with(|c| c.set(None));
                AUTO_FAIL.with(|c| c.set(0));
            }
        }
        let _reset = Reset;
        AUTO_RESPOND.with(|c| c.set(auto));
        AUTO_FAIL.with(|c| c.set(fail));
        if auto.is_some() {
            obs.label("responses_written_between_reads");
        }
        let mut sch = sched_from_src(&mut s, &stream, &bounds, 6);
        run_focus("C02", &F_C02, &stream, &reqs, &end, limit, false, &mut sch)?
    };
    let ncomplete = reqs.iter().filter(|r| r.complete_at != usize::MAX).count();
    obs.nontrivial = ncomplete > 0 || matches!(end, End::Error { .. });
    for n in &notes.0 {
        obs.label(n);
    }
    match &end {
        End::Error { err, in_request, .. } => {
            obs.label(match err {
                RefErr::ReqLine(RlFault::Shape) => "err_shape",
                RefErr::ReqLine(RlFault::Method) => "err_method",
                RefErr::ReqLine(RlFault::Uri) => "err_uri",
                RefErr::ReqLine(RlFault::Version) => "err_version",
                RefErr::ReqLineTooLong => "err_reqline_too_long",
                RefErr::Header(HFault::NonUtf8) => "err_hdr_nonutf8",
                RefErr::Header(HFault::NoColon) => "err_hdr_nocolon",
                RefErr::Header(HFault::BadContentLength) => "err_hdr_content_length",
                RefErr::Header(HFault::EmptyAcceptEncoding) => "err_hdr_ae_empty",
                RefErr::Header(HFault::IdentityExcluded) => "err_hdr_identity_excluded",
                RefErr::Header(HFault::LineTooLong) => "err_hdr_too_long",
                RefErr::Payload { .. } => "err_payload",
            });
            if *in_request > 0 {
                obs.label("fault_in_request_k>1");
            }
        }
        End::Incomplete => obs.label("no_error"),
    }
    if reqs.iter().any(|r| r.body.is_some()) {
        obs.label("accepted_with_body");
    }
    if ncomplete >= 2 {
        obs.label("accepted_pipelined");
    }
    if notes.0.iter().filter(|n| n.starts_with("c_")).count() >= 2 {
        obs.label("two_simultaneous_corruptions");
    }
    obs.case_hash = Some(fnv64(&stream) ^ (eff(limit) as u64).wrapping_mul(0x9e3779b97f4a7c15));
    if obs.want_render {
        obs.render = render_conn(&stream, limit, &r.info, &end, reqs.len());
    }
    Ok(())
}

/// Exhaustive single-point corruptions of a few canonical requests: every byte position x
/// {delete, each replacement from a small alphabet, insert}. params = [base, pos, op, sym]
const C02_BASES: [&[u8]; 4] = [
    b"GET / HTTP/1.1\r\n\r\n",
    b"PUT /a HTTP/1.0\r\nContent-Length: 3\r\n\r\nabcGET /n HTTP/1.1\r\n\r\n",
    b"PATCH http://h/p HTTP/1.1\r\nExpect: 100-continue\r\nContent-Length: 2\r\nAccept-Encoding: identity\r\n\r\nxy",
    b"GET /x HTTP/1.1\r\nAccept: text/plain\r\nTransfer-Encoding: chunked\r\nX-A:b\r\n\r\nPUT / HTTP/1.1\r\n\r\n",
];
/// every byte value is tried as replacement and as insertion

fn c02_edit(input: &Input, obs: &mut Obs) -> Result<(), Fail> {
    let p = input.params();
    let mut stream = C02_BASES[p[0] as usize].to_vec();
    let pos = p[1] as usize;
    match p[2] {
        0 => {
            stream.remove(pos);
        }
        1 => stream[pos] = p[3] as u8,
        _ => stream.insert(pos, p[3] as u8),
    }
    let (reqs, end) = ref_parse(&stream, buf_size(), DEFAULT_LIMIT);
    let r = run_focus("C02", &F_C02, &stream, &reqs, &end, None, false, &mut |_, _, w| ReadEv::Data { want: w.max(1), fds: vec![] })?;
    obs.nontrivial = true;
    match &end {
        End::Error { .. } => obs.label("edit_rejected"),
        End::Incomplete => obs.label("edit_tolerated_or_incomplete"),
    }
    if obs.want_render {
        obs.render = render_conn(&stream, None, &r.info, &end, reqs.len());
    }
    Ok(())
}

fn c02_edit_enum(_tier: Tier, shard: u64, nshards: u64, f: &mut dyn FnMut(&[u64]) -> bool) {
    let mut i = 0u64;
    for (b, base) in C02_BASES.iter().enumerate() {
        for pos in 0..=base.len() as u64 {
            for op in 0..3u64 {
                if op < 2 && pos as usize >= base.len() {
                    continue;
                }
                let nsym = if op == 0 { 1 } else { 256 };
                for sym in 0..nsym {
                    i += 1;
                    if i % nshards != shard {
                        continue;
                    }
                    if !f(&[b as u64, pos, op, sym]) {
                        return;
                    }
                }
            }
        }
    }
}

fn c02_plan(tier: Tier) -> Vec<Job> {
    let q = tier == Tier::Quick;
    vec![
        Job { sub: "grammar", kind: JobKind::Pbt { cases: if q { 400_000 } else { 6_000_000 }, max_len: 1000 }, smallbuf: false },
        Job { sub: "defer", kind: JobKind::Pbt { cases: if q { 6_000 } else { 100_000 }, max_len: 300 }, smallbuf: false },
        Job { sub: "edit", kind: JobKind::Enum { f: c02_edit_enum, bound: "4 canonical request streams x every byte position x {delete, replace by each of the 256 byte values, insert each of the 256 byte values}" }, smallbuf: false },
    ]
}

pub fn c02() -> PropDef {
    PropDef {
        id: "C02",
        subs: vec![("grammar", c02_grammar), ("edit", c02_edit), ("raw", crate::props::raw::c02_raw), ("defer", c02_defer)],
        plan: c02_plan,
        rule: "case = byte stream of 1..4 requests from the grammar with per-element corruptions (method, SP, URI, version, line ends, header lines, Content-Length spellings, body length), payload limit, one random read schedule; oracle = REF both directions (every REF request delivered with identical fields, nothing else; error class names the first offending element); non-trivial = REF outcome is not 'incomplete with zero requests'; distinct = hash of (stream, limit)",
        assumptions: vec![
            "header-line faults are compared at the granularity HeaderError(_) (InvalidRequest also accepted for an empty Accept-Encoding); request-line faults exactly",
            "Content-Length accepts an optional leading '+' (DESIGN 2.2)",
        ],
        single_threaded_world: false,
    }
}

// ---------------------------------------------------------------------------------------
// C04 (connection part)

fn c04_limits(input: &Input, obs: &mut Obs) -> Result<(), Fail> {
    let mut s = Src::new(input.bytes());
    let limit = pick_limit(&mut s, false);
    let l = eff(limit);
    // declared length around the limit
    let l64 = l as u64;
    let cands: [u64; 9] = [0, 1, l64.saturating_sub(1), l64, l64.saturating_add(1), l64.saturating_mul(2), u32::MAX as u64, l64.saturating_sub(2), l64.saturating_add(2)];
    let n = cands[s.below(cands.len())].min(u32::MAX as u64) as usize;
    let mut stream = Vec::new();
    // optionally a complete small request in front
    if s.chance(60) {
        stream.extend_from_slice(b"PUT /pre HTTP/1.1\r\nContent-Length: 1\r\n\r\nz");
        if l < 1 {
            obs.label("front_request_itself_over_limit");
        }
    }
    stream.extend_from_slice([&b"PUT"[..], b"PATCH", b"GET"][s.weighted(&[5, 4, 1])]);
    stream.extend_from_slice(b" /x HTTP/1.1\r\n");
    let extra = s.below(3);
    for _ in 0..extra {
        stream.extend_from_slice([&b"X-A: b\r\n"[..], b"Content-Type: application/json\r\n", b"Expect: 100-continue\r\n"][s.below(3)]);
    }
    stream.extend_from_slice(style_name(&mut s, "Content-Length").as_bytes());
    stream.push(b':');
    // now and then the declaration does not even fit 32 bits: whatever L is, it exceeds it
    let beyond: Option<&str> = if s.chance(12) {
        Some(["4294967296", "4294967297", "8589934591", "18446744073709551615", "18446744073709551616", "99999999999999999999", "004294967296"][s.below(7)])
    } else {
        None
    };
    let n_text = match beyond {
        Some(t) => t.to_string(),
        None => n.to_string(),
    };
    let n = if beyond.is_some() { 0 } else { n };
    stream.extend_from_slice(style_value(&mut s, &n_text).as_bytes());
    stream.extend_from_slice(b"\r\n\r\n");
    if beyond.is_some() {
        stream.extend_from_slice(b"abc");
    }
    // body: none / partial / full (+ a following request)
    let supply = match s.weighted(&[4, 2, 6]) {
        0 => 0,
        1 => n.min(70000) / 2,
        _ => n.min(70000),
    };
    stream.extend_from_slice(&filler(s.below(3), s.u8(), supply));
    if supply == n && s.chance(100) {
        stream.extend_from_slice(b"GET /after HTTP/1.1\r\n\r\n");
    }
    let (reqs, end) = ref_parse(&stream, buf_size(), l);
    let bounds = ref_bounds(&stream, &reqs);
    // optionally the connection has already rejected something: the limit must still be L
    const PRELUDES: [&[u8]; 5] = [
        b"BAD / HTTP/1.1\r\n",
        b"GET / HTTP/1.1\r\nnocolon\r\n",
        b"PUT / HTTP/1.1\r\nContent-Length: 4294967295\r\n\r\n",
        b"GET  HTTP/1.1\r\n",
        b"PUT /x HTTP/1.1\r\nContent-Length: x\r\n",
    ];
    let prelude: &[u8] = if buf_size() >= 1024 && s.chance(80) {
        let p = PRELUDES[s.below(PRELUDES.len())];
        // the payload prelude only errors when its declared length exceeds L
        if p.starts_with(b"PUT / HTTP/1.1\r\nContent-Length: 4294967295") && l >= u32::MAX as usize { &[] } else { p }
    } else {
        &[]
    };
    // now and then the limit is configured only while the request that is about to be rejected is
    // in flight (some of its bytes read): the requests behind the rejected one are judged by L
    if prelude.len() > 2 && limit.is_some() && s.chance(90) {
        let k = 1 + s.below(prelude.len() - 1);
        // (no line of the prelude may be complete at the split when its fault is in that line)
        let first_line_end = prelude.windows(2).position(|w| w == b"\r\n").map(|i| i + 2).unwrap_or(prelude.len());
        let k = if first_line_end == prelude.len() { k.min(prelude.len() - 2) } else { k };
        if k > 0 {
            crate::connrun::LATE_LIMIT_AT.with(|c| c.set(Some(k)));
        }
    }
    let r = {
        let mut sch = sched_from_src(&mut s, &stream, &bounds, 20);
        // a declaration beyond 32 bits exceeds every limit: that it is rejected (as an invalid
        // value) at the end of its line, and not accepted or reported differently, is on topic
        let focus = if beyond.is_some() { Focus { errors: true, ..F_C04 } } else { F_C04 };
        run_focus_after("C04", &focus, &stream, &reqs, &end, limit, false, &mut sch, prelude)?
    };
    if beyond.is_some() {
        obs.label("declared_length_beyond_32_bits");
    }
    if r.offtopic {
        obs.label("offtopic_mismatch");
        return Ok(());
    }
    if !prelude.is_empty() {
        obs.label("limit_checked_after_a_parse_error");
    }
    if r.info.labels.contains(&"limit_configured_while_a_request_is_in_flight") {
        obs.label("limit_configured_while_a_request_is_in_flight");
    }
    // a delivered body never exceeds the limit or its declared length
    for (rs, _) in &r.info.transcript {
        for d in rs {
            let bl = d.body.as_ref().map(|b| b.len()).unwrap_or(0);
            if bl > l || bl != d.cl as usize {
                return Err(Fail::new("C04:body-over-limit", format!("delivered body of {} bytes with declared {} under limit {}", bl, d.cl, l)));
            }
        }
    }
    let dn = n as i128 - l as i128;
    obs.nontrivial = dn.abs() <= 1;
    if n == l {
        obs.label("n==L");
    }
    if Some(n) == l.checked_add(1) {
        obs.label("n==L+1");
    }
    if l == 0 {
        obs.label("L==0");
    }
    if l == u32::MAX as usize {
        obs.label("L==2^32-1");
    }
    if supply == 0 && n > l {
        obs.label("error_with_zero_body_bytes");
    }
    if matches!(end, End::Error { err: RefErr::Payload { .. }, .. }) {
        obs.label("ref_rejects_payload");
    }
    obs.case_hash = Some(fnv64(&stream) ^ (l as u64).wrapping_mul(0x9e3779b97f4a7c15) ^ fnv64(format!("{:?}", r.info.reads_desc).as_bytes()));
    if obs.want_render {
        obs.render = render_conn(&stream, limit, &r.info, &end, reqs.len());
    }
    Ok(())
}

/// a complete bodiless request of exactly `n` bytes, if one exists (n = 18 or n >= 24)
pub fn exact_request(n: usize) -> Option<Vec<u8>> {
    let base = b"GET / HTTP/1.1\r\n";
    if n == base.len() + 2 {
        let mut v = base.to_vec();
        v.extend_from_slice(b"\r\n");
        return Some(v);
    }
    // each pad header "X: ppp\r\n" costs 5 + pad bytes, pad <= 800
    if n < base.len() + 2 + 6 {
        return None;
    }
    let mut v = base.to_vec();
    let mut rest = n - base.len() - 2;
    while rest > 0 {
        let (big, chunk) = if buf_size() >= 1024 { (900, 805) } else { (buf_size(), buf_size() - 6) };
        let take = if rest > big { chunk } else { rest };
        if take < 6 {
            // cannot happen: rest > 900 leaves >= 95
            return None;
        }
        v.extend_from_slice(b"X: ");
        v.extend(std::iter::repeat(b'y').take(take - 5));
        v.extend_from_slice(b"\r\n");
        rest -= take;
    }
    v.extend_from_slice(b"\r\n");
    debug_assert_eq!(v.len(), n);
    Some(v)
}

/// params = [kind(0 request line,1 header line), line length incl CRLF, start offset (bytes of a preceding request), mode]
fn c04_lines(input: &Input, obs: &mut Obs) -> Result<(), Fail> {
    let p = input.params();
    let (kind, len, off, mode) = (p[0], p[1] as usize, p[2] as usize, p[3]);
    let mut stream = Vec::new();
    // preceding complete request of exactly `off` bytes (none when that is impossible)
    if let Some(pre) = exact_request(off) {
        stream.extend_from_slice(&pre);
    }
    let line_start = stream.len();
    if kind == 2 {
        // a short header line whose value ends in a lone CR (so the line ends CR CR LF), followed by a
        // line of length len: neither is longer than the limit unless len itself is
        stream.extend_from_slice(b"GET / HTTP/1.1\r\nX-A: v\r\r\n");
        let fixed = 7 + 2;
        stream.extend_from_slice(b"X-Pad: ");
        stream.extend(std::iter::repeat(b'p').take(len.saturating_sub(fixed)));
        stream.extend_from_slice(b"\r\n\r\n");
    } else if kind == 0 {
        // "GET /uuu HTTP/1.1\r\n" of total length len
        let fixed = 4 + 1 + 9 + 2;
        stream.extend_from_slice(b"GET /");
        stream.extend(std::iter::repeat(b'u').take(len.saturating_sub(fixed)));
        stream.extend_from_slice(b" HTTP/1.1\r\n\r\n");
    } else if kind == 3 || kind == 4 {
        // a header line without a blank after the colon / with blanks on both sides of the value:
        // the line is as long as its bytes, however it would be re-written
        stream.extend_from_slice(if kind == 3 { b"PUT / HTTP/1.1\r\n" } else { b"GET / HTTP/1.1\r\n" });
        let (head, tail): (&[u8], &[u8]) = if kind == 3 { (b"X-Pad:", b"") } else { (b"X-Pad:  ", b" \t") };
        let fixed = head.len() + tail.len() + 2;
        stream.extend_from_slice(head);
        stream.extend(std::iter::repeat(b'p').take(len.saturating_sub(fixed)));
        stream.extend_from_slice(tail);
        stream.extend_from_slice(b"\r\n\r\n");
    } else {
        stream.extend_from_slice(b"GET / HTTP/1.1\r\n");
        let fixed = 7 + 2;
        stream.extend_from_slice(b"X-Pad: ");
        stream.extend(std::iter::repeat(b'p').take(len.saturating_sub(fixed)));
        stream.extend_from_slice(b"\r\n\r\n");
    }
    stream.extend_from_slice(b"GET /after HTTP/1.1\r\n\r\n");
    // filler variant: a lone LF / lone CR / NUL inside the long line (in the middle or near its
    // end) is an ordinary byte of that line, which is as long as before
    let variant = p.get(4).copied().unwrap_or(0);
    if variant > 0 && len >= 40 {
        let fill_at = match kind {
            0 => line_start + 5,
            2 => line_start + 25 + 7,
            3 => line_start + 16 + 6,
            4 => line_start + 16 + 8,
            _ => line_start + 16 + 7,
        };
        let fill_len = len - match kind { 0 => 16, 3 => 8, 4 => 12, _ => 9 };
        let at = fill_at + if variant >= 4 { fill_len - 3 } else { fill_len / 2 };
        stream[at] = match variant {
            1 | 4 => b'\n',
            2 | 5 => b'\r',
            _ => 0,
        };
        obs.label("long_line_with_lone_LF_CR_NUL");
    }
    let b = buf_size();
    let (reqs, end) = ref_parse(&stream, b, DEFAULT_LIMIT);
    let mut sch = sweep_mode_sched(mode);
    // the stream is well-formed but for the length of one line: whatever is refused here, with
    // whatever error kind, is refused for that length, and whatever is not delivered likewise
    let focus = Focus { errors: true, delivery: true, ..F_C04 };
    let r = run_focus("C04", &focus, &stream, &reqs, &end, None, false, &mut sch)?;
    if r.offtopic {
        obs.label("offtopic_mismatch");
        return Ok(());
    }
    obs.nontrivial = (len as i64 - b as i64).abs() <= 2;
    if len == b {
        obs.label("line==B_accepted");
    }
    if len == b + 1 {
        obs.label("line==B+1_rejected");
    }
    let so = line_start % b;
    obs.label(if line_start == 0 { "start_offset_0" } else if so + len > b { "line_straddles_window_edge" } else { "line_mid_window" });
    if obs.want_render {
        obs.render = format!("kind={} line_len={} line_start={} mode={}\n{}", kind, len, line_start, mode, render_conn(&stream, None, &r.info, &end, reqs.len()));
    }
    Ok(())
}

fn c04_lines_enum(tier: Tier, shard: u64, nshards: u64, f: &mut dyn FnMut(&[u64]) -> bool) {
    let b = buf_size() as u64;
    let (lo, hi) = if b == 1024 { (1000u64, 1100u64) } else { (b - 12, b + 8) };
    let offs: Vec<u64> = if b == 1024 {
        if tier == Tier::Quick { (0..=1100).step_by(13).collect() } else { (0..=1100).collect() }
    } else {
        (0..=80).collect()
    };
    let mut i = 0u64;
    for kind in 0..5u64 {
        for len in lo..=hi {
            for off in &offs {
                let modes: &[u64] = if tier == Tier::Quick { &[0] } else { &[0, 1, 4] };
                for m in modes {
                    i += 1;
                    if i % nshards != shard {
                        continue;
                    }
                    if !f(&[kind, len, *off, *m]) {
                        return;
                    }
                    // the same line with a lone LF, CR or NUL inside: around the limit for every
                    // offset, elsewhere for a sample
                    if (len + 3 >= b && len <= b + 3) || (len + *off) % 7 == 0 {
                        for v in 1..=5u64 {
                            if !f(&[kind, len, *off, *m, v]) {
                                return;
                            }
                        }
                    }
                }
            }
        }
    }
}

/// exhaustive over the declared length: params = [limit index, first n of a block of 256]
const NSWEEP_LIMITS: [Option<usize>; 16] = [
    Some(0), Some(1), Some(2), Some(3), Some(5), Some(8), Some(1023), Some(1024), Some(1025), Some(51199), None, Some(51201), Some(u32::MAX as usize),
    Some(1usize << 32), Some((1usize << 32) + 4), Some(usize::MAX),
];

fn c04_nsweep(input: &Input, obs: &mut Obs) -> Result<(), Fail> {
    let p = input.params();
    let limit = NSWEEP_LIMITS[p[0] as usize];
    let l = eff(limit);
    let mut cnt = 0u64;
    let mut near = 0u64;
    for n in p[1]..p[1] + 256 {
        if n > u32::MAX as u64 {
            break;
        }
        let n = n as usize;
        // header block only: the verdict must not need a body byte
        let head = format!("PUT /x HTTP/1.1\r\nContent-Length: {}\r\n\r\n", n).into_bytes();
        let mut stream = head.clone();
        let with_body = n <= 600 && n <= l;
        if with_body {
            stream.extend(crate::src::filler(0, n as u8, n));
            stream.extend_from_slice(b"GET /after HTTP/1.1\r\n\r\n");
        }
        let mut run = ConnRun::new(stream.clone(), limit, false);
        let st = run.read(ReadEv::Data { want: buf_size(), fds: vec![] }).map_err(|m| Fail::new("C04:misuse", m))?.clone();
        cnt += 1;
        if (n as i128 - l as i128).abs() <= 1 {
            near += 1;
        }
        if n > l {
            match &st.res {
                RRes::Parse(PKind::Payload(a, b), _) if *a == l && *b == n => {}
                other => {
                    return Err(Fail::new("C04:missed-error", format!("limit {} declared {}: header block complete, result {:?} (expected SizeLimitExceeded({}, {}))", l, n, other, l, n)));
                }
            }
            if !st.reqs.is_empty() {
                return Err(Fail::new("C04:delivery", "a request over the limit was delivered".into()));
            }
        } else {
            if st.res != RRes::Ok {
                return Err(Fail::new("C04:spurious-error", format!("limit {} declared {}: result {:?} (the declaration is within the limit)", l, n, st.res)));
            }
            if with_body {
                // drain the rest; the request must come out with exactly n body bytes, then the next one
                let mut all = st.reqs.clone();
                let mut guard = 0;
                while run.remaining() > 0 && guard < 8 {
                    guard += 1;
                    let s2 = run.read(ReadEv::Data { want: buf_size(), fds: vec![] }).map_err(|m| Fail::new("C04:misuse", m))?.clone();
                    if s2.res != RRes::Ok {
                        return Err(Fail::new("C04:spurious-error", format!("limit {} declared {}: {:?} while reading the body", l, n, s2.res)));
                    }
                    all.extend(s2.reqs);
                }
                let bl = all.first().and_then(|d| d.body.as_ref().map(|b| b.len())).unwrap_or(0);
                if all.len() != 2 || bl != n {
                    return Err(Fail::new("C04:body-length", format!("limit {} declared {}: {} requests delivered, first body {} bytes", l, n, all.len(), bl)));
                }
            } else if n > 0 && !st.reqs.is_empty() {
                return Err(Fail::new("C04:delivery", format!("declared {} with no body byte supplied, yet a request was delivered", n)));
            }
        }
    }
    obs.extra_evals = cnt.saturating_sub(1);
    obs.extra_nontrivial = near;
    if obs.want_render {
        obs.render = format!("limit={:?}: every declared length {}..{} (header block only; with body and a following request when n <= 600)", limit, p[1], p[1] + 255);
    }
    Ok(())
}

fn c04_nsweep_enum(tier: Tier, shard: u64, nshards: u64, f: &mut dyn FnMut(&[u64]) -> bool) {
    let mut c = 0u64;
    for (li, lim) in NSWEEP_LIMITS.iter().enumerate() {
        let l = eff(*lim) as u64;
        let hi = if l > 100_000 { 70_000 } else { (l + 1024).max(if tier == Tier::Quick { 4096 } else { 70_000 }) };
        let mut start = 0u64;
        while start <= hi {
            c += 1;
            if c % nshards == shard && !f(&[li as u64, start]) {
                return;
            }
            start += 256;
        }
        // the top of the u32 range
        for start in [u32::MAX as u64 - 255, u32::MAX as u64 - 511, (1u64 << 31) - 128] {
            c += 1;
            if c % nshards == shard && !f(&[li as u64, start]) {
                return;
            }
        }
    }
}

fn c04_e2_32(input: &Input, obs: &mut Obs) -> Result<(), Fail> {
    small_cut2("C04", &F_C04, false, input, obs)
}

pub fn c04_conn_subs() -> Vec<(&'static str, SubFn)> {
    vec![("limits", c04_limits), ("lines", c04_lines), ("e2_32", c04_e2_32), ("raw", crate::props::raw::c04_raw), ("nsweep", c04_nsweep)]
}

pub fn c04_conn_jobs(tier: Tier) -> Vec<Job> {
    let q = tier == Tier::Quick;
    vec![
        Job { sub: "limits", kind: JobKind::Pbt { cases: if q { 300_000 } else { 6_000_000 }, max_len: 400 }, smallbuf: false },
        Job { sub: "nsweep", kind: JobKind::Enum { f: c04_nsweep_enum, bound: "16 limits (incl. 2^32, 2^32+4, usize::MAX) x every declared length 0..max(L+1024, 4096 (quick) / 70000 (thorough)) and the top of the u32 range, header block only (and with body + following request for n <= 600)" }, smallbuf: false },
        Job { sub: "lines", kind: JobKind::Enum { f: c04_lines_enum, bound: "request/header line of every length 1000..1100 (incl. CRLF) x start offset 0..1100 (quick: step 13; thorough: every offset) x read sizes; B=32 build: lengths 20..40 x offsets 0..80" }, smallbuf: false },
        Job { sub: "lines", kind: JobKind::Enum { f: c04_lines_enum, bound: "B=32: line lengths 20..40 x offsets 0..80" }, smallbuf: true },
        Job { sub: "e2_32", kind: JobKind::Enum { f: small_cut2_enum, bound: "B=32 piece family x all cut pairs (size-related mismatches only)" }, smallbuf: true },
    ]
}

// ---------------------------------------------------------------------------------------
// C13 (connection part)

fn c13_expect(input: &Input, obs: &mut Obs) -> Result<(), Fail> {
    let mut s = Src::new(input.bytes());
    let limit = if s.chance(200) { [Some(5usize), Some(8), Some(1024), Some(2), Some(u32::MAX as usize), Some(1usize << 32), Some((1usize << 32) + 3), Some(usize::MAX), Some(0), Some(1)][s.weighted(&[4, 4, 4, 4, 1, 2, 2, 1, 3, 2])] } else { None };
    let mut cfg = GenCfg::new(buf_size(), eff(limit));
    cfg.corrupt = 3;
    cfg.expect = 190;
    cfg.max_reqs = 4;
    let (mut stream, notes) = gen_stream(&mut s, &cfg);
    let (reqs0, _) = ref_parse(&stream, buf_size(), eff(limit));
    // optionally end the stream exactly at a header terminator (body withheld)
    if s.chance(90) {
        if let Some(r) = reqs0.iter().rev().find(|r| r.wants_continue) {
            stream.truncate(r.headers_done_at);
            obs.label("body_withheld");
        }
    }
    let (reqs, end) = ref_parse(&stream, buf_size(), eff(limit));
    let bounds = ref_bounds(&stream, &reqs);
    let r = {
        let mut sch = sched_from_src(&mut s, &stream, &bounds, 24);
        run_focus("C13", &F_C13, &stream, &reqs, &end, limit, true, &mut sch)?
    };
    if r.offtopic {
        obs.label("offtopic_mismatch");
        return Ok(());
    }
    let l = eff(limit);
    let mut q = 0;
    for rq in &reqs {
        if rq.headers.expect {
            let n = rq.headers.content_length as usize;
            if rq.wants_continue {
                q += 1;
                obs.label("qualifying");
            }
            if n == 0 {
                obs.label("expect_n0");
            }
            if n == l {
                obs.label("expect_n==L");
            }
            if rq.method == 0 {
                obs.label("GET_with_expect");
            }
            if rq.version == 0 {
                obs.label("http10_with_expect");
            }
        }
    }
    if q >= 2 {
        obs.label("two_qualifying_pipelined");
    }
    if let End::Error { err: RefErr::Payload { .. }, .. } = end {
        if notes.0.contains(&"expect_line") {
            obs.label("expect_n>L_error_no_100");
        }
    }
    if r.info.labels.contains(&"cut_in_CRLF|CRLF") || r.info.labels.contains(&"partial_line_carried") {
        obs.label("header_block_split_across_reads");
    }
    obs.nontrivial = notes.0.contains(&"expect_line");
    obs.case_hash = Some(fnv64(&stream) ^ (l as u64).wrapping_mul(0x9e3779b97f4a7c15) ^ fnv64(format!("{:?}", r.info.reads_desc).as_bytes()));
    if obs.want_render {
        obs.render = format!("{}\ninterim output=\"{}\"", render_conn(&stream, limit, &r.info, &end, reqs.len()), esc(&r.info.out));
    }
    Ok(())
}

fn c13_e2_32(input: &Input, obs: &mut Obs) -> Result<(), Fail> {
    small_cut2("C13", &F_C13, true, input, obs)
}

fn c13_sweep(input: &Input, obs: &mut Obs) -> Result<(), Fail> {
    sweep_case("C13", &F_C13, true, input, obs)
}

fn c13_sweep_enum(tier: Tier, shard: u64, nshards: u64, f: &mut dyn FnMut(&[u64]) -> bool) {
    let mut i = 0;
    for pad in 0..=1100u64 {
        let modes: &[u64] = if tier == Tier::Quick { &[0, 1] } else { &[0, 1, 2, 3, 4] };
        for m in modes {
            i += 1;
            if i % nshards != shard {
                continue;
            }
            if !f(&[2, pad, *m]) {
                return;
            }
        }
    }
}

/// The interim response after other output was discarded: an application response is partly
/// written, then dropped (failed write or `clear_write_buffer`); the Expect request that arrives
/// afterwards still gets one intact `100 Continue` of its version, and is yielded once its body
/// has arrived.
fn c13_discard(input: &Input, obs: &mut Obs) -> Result<(), Fail> {
    use micro_http::{Body, Response, StatusCode, Version};
    let mut s = Src::new(input.bytes());
    let rounds = s.range(1, 3);
    let mut run = ConnRun::new(Vec::new(), None, false);
    run.keep = true;
    let fail = |sig: &str, m: String| Fail::new(&format!("C13:{}", sig), m);
    let mut total_reqs = 0usize;
    for round in 0..rounds {
        // an application response, partly written, then discarded
        let how = s.below(6);
        if how > 0 {
            let size = [1usize, 40, 300, 5000, 70_000][s.below(5)];
            let mut r = Response::new(if s.chance(128) { Version::Http11 } else { Version::Http10 }, StatusCode::OK);
            r.set_body(Body::new(filler(0, s.u8(), size)));
            run.conn.enqueue_response(r);
            let nwrites = s.range(1, 3);
            for _ in 0..nwrites {
                run.ss.borrow_mut().next_write = Some(WriteEv::Accept(s.u16() / 2));
                let _ = run.conn.try_write();
            }
            run.ss.borrow_mut().next_write = None;
            if run.conn.pending_write() {
                obs.label("response_partly_written_then_discarded");
            }
            match how {
                1 => run.conn.clear_write_buffer(),
                2 | 3 | 4 => {
                    run.ss.borrow_mut().next_write = Some([WriteEv::Epipe, WriteEv::Eagain, WriteEv::Zero][how - 2]);
                    let _ = run.conn.try_write();
                    run.ss.borrow_mut().next_write = None;
                }
                _ => {
                    // not discarded: written out completely
                    run.drain_out().map_err(|m| fail("output", m))?;
                }
            }
            if run.conn.pending_write() {
                return Err(fail("pending-after-discard", "output is still reported pending after it was discarded".into()));
            }
        }
        // the Expect request: header block first, body later
        let v = s.below(2);
        let n = s.range(1, 2000);
        let method = ["PUT", "PATCH"][s.below(2)];
        let head = format!("{} /r{} HTTP/1.{}\r\nExpect: 100-continue\r\nContent-Length: {}\r\n\r\n", method, round, v, n).into_bytes();
        let before = run.ss.borrow().out.len();
        run.feed(&head);
        let mut guard = 0;
        while run.remaining() > 0 && guard < 4000 {
            guard += 1;
            let want = [1usize, 7, 30, 1024][s.below(4)];
            let st = run.read(ReadEv::Data { want, fds: vec![] }).map_err(|m| fail("misuse", m))?.clone();
            match st.res {
                RRes::Ok => {}
                other => return Err(fail("read-result", format!("reading the header block of a well-formed Expect request gave {:?}", other))),
            }
        }
        let mut out = match std::panic::catch_unwind(std::panic::AssertUnwindSafe(|| run.drain_out())) {
            Ok(r) => r.map_err(|m| fail("interim-garbage", m))?,
            Err(p) => return Err(fail("panic", format!("try_write panicked: {}", crate::connrun::panic_msg(p)))),
        };
        let _ = &mut out;
        let got = run.ss.borrow().out[before..].to_vec();
        let (rs, end) = rr_parse(&got);
        if end != RrEnd::Clean || rs.len() != 1 || rs[0].code != 100 || rs[0].version as usize != v || !rs[0].body.is_empty() {
            return Err(fail("interim-garbage", format!("after the header block of an Expect request (HTTP/1.{}) the client received \"{}\" instead of one 100 Continue", v, esc(&got[..got.len().min(160)]))));
        }
        if !run.kept.is_empty() && run.kept.len() > total_reqs {
            return Err(fail("yielded-without-body", "the request was yielded before its body arrived".into()));
        }
        // the body
        let body = filler(1, s.u8(), n);
        run.feed(&body);
        let mut guard = 0;
        while run.remaining() > 0 && guard < 8000 {
            guard += 1;
            let st = run.read(ReadEv::Data { want: [5usize, 100, 1024][s.below(3)], fds: vec![] }).map_err(|m| fail("misuse", m))?.clone();
            if st.res != RRes::Ok {
                return Err(fail("read-result", format!("reading the body gave {:?}", st.res)));
            }
        }
        total_reqs += 1;
        if run.kept.len() != total_reqs {
            return Err(fail("not-yielded", format!("{} requests yielded after {} complete Expect requests", run.kept.len(), total_reqs)));
        }
        let d = delivered_of(&run.kept.last().unwrap().1);
        if d.body.as_deref() != Some(&body[..]) {
            return Err(fail("not-yielded", "the yielded request does not carry the body that was sent".into()));
        }
        let extra = run.ss.borrow().out.len();
        if run.conn.pending_write() || extra != before + got.len() {
            return Err(fail("interim-count", "further output appeared while the body was received".into()));
        }
    }
    obs.nontrivial = obs.labels.contains(&"response_partly_written_then_discarded");
    if obs.want_render {
        obs.render = format!("{} rounds, labels {:?}", rounds, obs.labels);
    }
    Ok(())
}

pub fn c13_conn_subs() -> Vec<(&'static str, SubFn)> {
    vec![("expect", c13_expect), ("e2_32", c13_e2_32), ("sweep", c13_sweep), ("raw", crate::props::raw::c13_raw), ("discard", c13_discard)]
}

pub fn c13_conn_jobs(tier: Tier) -> Vec<Job> {
    let q = tier == Tier::Quick;
    vec![
        Job { sub: "expect", kind: JobKind::Pbt { cases: if q { 200_000 } else { 4_000_000 }, max_len: 900 }, smallbuf: false },
        Job { sub: "discard", kind: JobKind::Pbt { cases: if q { 30_000 } else { 600_000 }, max_len: 200 }, smallbuf: false },
        Job { sub: "sweep", kind: JobKind::Enum { f: c13_sweep_enum, bound: "Expect template x every pad length 0..1100 x fixed read sizes" }, smallbuf: false },
        Job { sub: "e2_32", kind: JobKind::Enum { f: small_cut2_enum, bound: "B=32 piece family (incl. the Expect piece) x all cut pairs" }, smallbuf: true },
    ]
}
