//! Raw-byte subs: the input *is* the stream / slice / header block (plus a few leading
//! configuration bytes). They are the entry points of the coverage-guided fuzz targets
//! (E3) and are also driven by proptest and replayable like every other sub.
//!
//! layout of a connection input: [limit selector][n = number of schedule bytes (0..=32)]
//! [n schedule bytes][stream ...]

use crate::engine::*;
use crate::props::conn::*;
use crate::props::conn2::*;
use crate::props::pure::*;
use crate::refparse::*;
use crate::src::{esc, fnv64, Src};
use crate::stream::ReadEv;
use crate::buf_size;

pub struct RawConn<'a> {
    pub limit: Option<usize>,
    pub sched: &'a [u8],
    pub stream: &'a [u8],
}

pub fn split_raw(b: &[u8]) -> RawConn<'_> {
    if b.len() < 2 {
        return RawConn { limit: None, sched: &[], stream: &[] };
    }
    let limit = LIMITS[(b[0] as usize) % LIMITS.len()];
    let n = (b[1] as usize % 33).min(b.len() - 2);
    RawConn { limit, sched: &b[2..2 + n], stream: &b[2 + n..] }
}

fn conn_raw(prop: &'static str, focus: &Focus, check_100: bool, cross: bool, input: &Input, obs: &mut Obs) -> Result<(), Fail> {
    let rc = split_raw(input.bytes());
    let stream = rc.stream;
    let (reqs, end) = ref_parse(stream, buf_size(), eff(rc.limit));
    let bounds = ref_bounds(stream, &reqs);
    let base = run_focus(prop, focus, stream, &reqs, &end, rc.limit, check_100, &mut |_, _, w| ReadEv::Data { want: w.max(1), fds: vec![] })?;
    if base.offtopic {
        obs.label("offtopic_mismatch");
        return Ok(());
    }
    let mut s = Src::new(rc.sched);
    let r = {
        let mut sch = sched_from_src(&mut s, stream, &bounds, 30);
        run_focus(prop, focus, stream, &reqs, &end, rc.limit, check_100, &mut sch)?
    };
    if r.offtopic {
        obs.label("offtopic_mismatch");
        return Ok(());
    }
    if cross && flat(&r.info) != flat(&base.info) {
        return Err(Fail::new(&format!("{}:schedule-dependence", prop), format!("same stream, two segmentations, different transcripts (reads {:?})", r.info.reads_desc)));
    }
    obs.nontrivial = r.info.delivered > 0 || r.info.error.is_some() || !r.info.out.is_empty();
    for l in &r.info.labels {
        obs.label(l);
    }
    obs.case_hash = Some(fnv64(input.bytes()));
    if obs.want_render {
        obs.render = render_conn(stream, rc.limit, &r.info, &end, reqs.len());
    }
    Ok(())
}

pub fn c01_raw(input: &Input, obs: &mut Obs) -> Result<(), Fail> {
    conn_raw("C01", &F_C01, false, true, input, obs)
}
pub fn c02_raw(input: &Input, obs: &mut Obs) -> Result<(), Fail> {
    conn_raw("C02", &F_C02, false, false, input, obs)
}
pub fn c04_raw(input: &Input, obs: &mut Obs) -> Result<(), Fail> {
    conn_raw("C04", &F_C04, false, false, input, obs)
}
pub fn c13_raw(input: &Input, obs: &mut Obs) -> Result<(), Fail> {
    conn_raw("C13", &F_C13, true, false, input, obs)
}

pub fn c11_raw(input: &Input, obs: &mut Obs) -> Result<(), Fail> {
    let rc = split_raw(input.bytes());
    let stream = rc.stream;
    let bounds = crate::gen::boundaries(stream, &[]);
    let mut s = Src::new(rc.sched);
    let mut render = String::new();
    let compared = {
        let mut sch = sched_from_src(&mut s, stream, &bounds, 16);
        c11_differential(stream, rc.limit, &mut sch, obs, &mut render)?
    };
    obs.nontrivial = compared > 0;
    obs.case_hash = Some(fnv64(input.bytes()));
    if obs.want_render {
        obs.render = format!("limit={:?} stream=\"{}\"\n{}", rc.limit, esc(stream), render);
    }
    Ok(())
}

pub fn c03_raw(input: &Input, obs: &mut Obs) -> Result<(), Fail> {
    let rc = split_raw(input.bytes());
    c03_entry_points(rc.stream, obs)?;
    let mut s = Src::new(rc.sched);
    let trace = c03_conn_run(&mut s, rc.stream.to_vec(), rc.limit, obs)?;
    obs.case_hash = Some(fnv64(input.bytes()));
    if obs.want_render {
        obs.render = format!("stream=\"{}\"\ncalls: {}", esc(rc.stream), trace);
    }
    Ok(())
}

pub fn c14_raw(input: &Input, obs: &mut Obs) -> Result<(), Fail> {
    let b = input.bytes();
    c14_check(b, obs)?;
    obs.nontrivial = b.windows(2).position(|w| w == b"\r\n").map(|i| b.len() > i + 4).unwrap_or(false);
    obs.case_hash = Some(fnv64(b));
    if obs.want_render {
        obs.render = format!("slice=\"{}\"", esc(b));
    }
    Ok(())
}

/// header block: the input split at LF into non-empty lines (CR before LF dropped), re-joined with CRLF
pub fn c15_raw(input: &Input, obs: &mut Obs) -> Result<(), Fail> {
    let b = input.bytes();
    if b.is_empty() {
        return Ok(());
    }
    let term = (b[0] % 3) as usize;
    let mut lines: Vec<Vec<u8>> = Vec::new();
    for l in b[1..].split(|c| *c == b'\n').take(8) {
        let mut l = l.to_vec();
        while l.last() == Some(&b'\r') {
            l.pop();
        }
        while let Some(i) = l.windows(2).position(|w| w == b"\r\n") {
            l.remove(i);
        }
        if !l.is_empty() {
            lines.push(l);
        }
    }
    c15_check_lines(&lines, term)?;
    obs.nontrivial = lines.iter().any(|l| l.contains(&b':'));
    obs.case_hash = Some(fnv64(b));
    if obs.want_render {
        obs.render = format!("lines={:?}", lines.iter().map(|l| esc(l)).collect::<Vec<_>>());
    }
    Ok(())
}

/// fuzz entry: run the named raw subs; returns the first failure
pub fn fuzz_one(which: &[(&'static str, SubFn)], data: &[u8]) -> Option<(String, Fail)> {
    let input = Input::Bytes(data.to_vec());
    for (name, f) in which {
        let mut obs = Obs::default();
        if let Err(fl) = f(&input, &mut obs) {
            return Some((name.to_string(), fl));
        }
    }
    None
}
