pub mod conn;
pub mod conn2;
pub mod pure;
pub mod raw;
pub mod server;

use crate::engine::*;

fn srv_job(tier: Tier, quick: u64, thorough: u64) -> Job {
    Job { sub: "server", kind: JobKind::Pbt { cases: if tier == Tier::Quick { quick } else { thorough }, max_len: 300 }, smallbuf: false }
}
fn c04_plan(tier: Tier) -> Vec<Job> {
    let mut v = conn::c04_conn_jobs(tier);
    v.push(srv_job(tier, 8_000, 200_000));
    v
}
fn c11_plan(tier: Tier) -> Vec<Job> {
    let mut v = conn2::c11_conn_jobs(tier);
    v.push(srv_job(tier, 8_000, 200_000));
    v
}
fn c13_plan(tier: Tier) -> Vec<Job> {
    let mut v = conn::c13_conn_jobs(tier);
    v.push(srv_job(tier, 8_000, 200_000));
    v
}

pub fn all() -> Vec<PropDef> {
    vec![
        conn::c01(),
        conn::c02(),
        conn2::c03(),
        pure::c05(),
        conn2::c06(),
        PropDef {
            id: "C11",
            subs: { let mut v = conn2::c11_conn_subs(); v.push(server::c11_server_sub()); v },
            plan: c11_plan,
            rule: "connection part: case = stream A.B where A ends in a parse error of any class raised in any parser position (grammar corruptions or an explicit faulty element; cut at the decidable point or with surplus bytes) and B is a continuation of valid requests, blank lines, header-like lines, garbage or a further error, under a random read schedule; oracle = differential: every read after an error-reporting read is replayed, with the same chunk sizes, into a fresh connection with the same limit; results, delivered requests and drained interim output must be identical, recursively at the next error; non-trivial = at least one post-error read was compared; the owner may change the payload limit at drawn reads (the fresh connection gets the configuration in force); sub 'defer': the same stream and read plan with requests popped after every read vs. left queued (up to 2600 queued), results, requests available after each error, deliveries and output identical; server part also: one burst of a malformed request padded to exactly 1 or 2 server reads followed by well-formed requests",
            assumptions: vec!["bytes that arrive in the same read as the fault, after it, are not part of 'bytes read from then on'"],
            single_threaded_world: false,
        },
        conn2::c12(),
        server::c07(),
        server::c08(),
        server::c09(),
        server::c10(),
        server::c18(),
        pure::c14(),
        pure::c15(),
        pure::c16(),
        pure::c17(),
        PropDef {
            id: "C04",
            subs: { let mut v = conn::c04_conn_subs(); v.push(server::c04_server_sub()); v },
            plan: c04_plan,
            rule: "connection part: case = (payload limit L from the stated list, declared length n around L, body none/partial/full, read schedule) or (line kind, line length 1000..1100, start offset, read size); oracle = REF prefix form restricted to size-related verdicts + delivered body length <= L and == declared; non-trivial = |n-L|<=1 or |line length - B|<=2",
            assumptions: vec!["limits are configured before the first read of a connection"],
            single_threaded_world: false,
        },
        PropDef {
            id: "C13",
            subs: { let mut v = conn::c13_conn_subs(); v.push(server::c13_server_sub()); v },
            plan: c13_plan,
            rule: "connection part: case = stream of requests with/without Expect (name case/padding, unsupported values), Content-Length in {absent,0,1..,L,L+1}, optional truncation at the header terminator, read schedule; after every read all pending output is drained and parsed by the independent response reader; oracle = exactly one bodiless 100 with the request's version per REF request with expect && 0<n<=L whose header block is complete, in order, nothing else; non-trivial = the stream has an Expect line; limits up to 2^32+3 and usize::MAX; sub 'discard': an application response partly written then discarded (EPIPE/EAGAIN/zero/clear_write_buffer) or completed, then an Expect request: exactly one intact 100 Continue of its version, body, yield",
            assumptions: vec![],
            single_threaded_world: false,
        },
    ]
}
