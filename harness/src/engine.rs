//! Engine: seeded proptest driver over choice bytes (E1), bounded-exhaustive enumeration
//! (E2), sharding over worker processes, shrinking, replay files, evidence, known findings.

use std::collections::{BTreeMap, HashSet};
use std::io::Write as _;
use std::path::{Path, PathBuf};
use std::sync::atomic::{AtomicU64, Ordering};
use std::sync::{Arc, Mutex};
use std::time::Instant;

use proptest::strategy::Strategy;
use proptest::test_runner::{Config, RngAlgorithm, TestCaseError, TestError, TestRng, TestRunner};
use serde_json::{json, Value};

use crate::src::{fnv64, hex, unhex};

#[derive(Clone, Debug)]
pub enum Input {
    Bytes(Vec<u8>),
    Params(Vec<u64>),
}

impl Input {
    pub fn to_json(&self) -> Value {
        match self {
            Input::Bytes(b) => json!({ "bytes": hex(b) }),
            Input::Params(p) => json!({ "params": p }),
        }
    }
    pub fn from_json(v: &Value) -> Option<Input> {
        if let Some(b) = v.get("bytes").and_then(|x| x.as_str()) {
            return unhex(b).map(Input::Bytes);
        }
        if let Some(p) = v.get("params").and_then(|x| x.as_array()) {
            return Some(Input::Params(p.iter().filter_map(|x| x.as_u64()).collect()));
        }
        None
    }
    pub fn hash(&self) -> u64 {
        match self {
            Input::Bytes(b) => fnv64(b),
            Input::Params(p) => {
                let mut v = Vec::with_capacity(p.len() * 8);
                for x in p {
                    v.extend_from_slice(&x.to_le_bytes());
                }
                fnv64(&v) ^ 0x9e3779b97f4a7c15
            }
        }
    }
    pub fn bytes(&self) -> &[u8] {
        match self {
            Input::Bytes(b) => b,
            _ => &[],
        }
    }
    pub fn params(&self) -> &[u64] {
        match self {
            Input::Params(p) => p,
            _ => &[],
        }
    }
}

#[derive(Clone, Debug)]
pub struct Fail {
    /// short stable class of the failure (call site + trigger class), used for known findings
    pub sig: String,
    pub msg: String,
}

impl Fail {
    pub fn new(sig: &str, msg: String) -> Fail {
        Fail { sig: sig.to_string(), msg }
    }
}

#[derive(Default)]
pub struct Obs {
    pub nontrivial: bool,
    pub labels: Vec<&'static str>,
    pub want_render: bool,
    pub render: String,
    /// the case was skipped by construction (e.g. excluded known-finding trigger)
    pub excluded: bool,
    /// hash of the *decoded* case when the sub provides one (distinctness is judged on it)
    pub case_hash: Option<u64>,
    /// a sub that enumerates a whole block of cases internally reports them here
    /// (distinct by construction: every enumerated case is visited once)
    pub extra_evals: u64,
    pub extra_nontrivial: u64,
}

impl Obs {
    pub fn label(&mut self, l: &'static str) {
        if !self.labels.contains(&l) {
            self.labels.push(l);
        }
    }
}

pub type SubFn = fn(&Input, &mut Obs) -> Result<(), Fail>;
pub type EnumFn = fn(tier: Tier, shard: u64, nshards: u64, f: &mut dyn FnMut(&[u64]) -> bool);

#[derive(Clone, Copy, Debug, PartialEq, Eq)]
pub enum Tier {
    Quick,
    Thorough,
}

#[derive(Clone)]
pub enum JobKind {
    Pbt { cases: u64, max_len: usize },
    Enum { f: EnumFn, bound: &'static str },
}

#[derive(Clone)]
pub struct Job {
    pub sub: &'static str,
    pub kind: JobKind,
    /// runs only in the small-buffer build (B = 32)
    pub smallbuf: bool,
}

pub struct PropDef {
    pub id: &'static str,
    pub subs: Vec<(&'static str, SubFn)>,
    pub plan: fn(Tier) -> Vec<Job>,
    pub rule: &'static str,
    pub assumptions: Vec<&'static str>,
    /// needs one case per process at a time and pristine descriptor table
    pub single_threaded_world: bool,
}

impl PropDef {
    pub fn sub(&self, name: &str) -> Option<SubFn> {
        self.subs.iter().find(|(n, _)| *n == name).map(|(_, f)| *f)
    }
}

// ---------------------------------------------------------------------------------------
// known findings

static KNOWN: Mutex<Vec<(String, String, String)>> = Mutex::new(Vec::new()); // (property, signature, what)

pub fn verif_root() -> PathBuf {
    if let Ok(p) = std::env::var("MHV_ROOT") {
        return PathBuf::from(p);
    }
    // binary lives in <root>/harness/target*/release/mhv
    let exe = std::env::current_exe().unwrap_or_else(|_| PathBuf::from("/verif/harness/target/release/mhv"));
    let mut p = exe.as_path();
    for _ in 0..4 {
        p = p.parent().unwrap_or(Path::new("/verif"));
    }
    if p.join("properties.jsonl").exists() {
        p.to_path_buf()
    } else {
        PathBuf::from("/verif")
    }
}

pub fn load_known() {
    let path = verif_root().join("known_findings.json");
    let mut k = KNOWN.lock().unwrap();
    k.clear();
    if let Ok(text) = std::fs::read_to_string(&path) {
        if let Ok(v) = serde_json::from_str::<Value>(&text) {
            if let Some(arr) = v.get("findings").and_then(|x| x.as_array()) {
                for e in arr {
                    if e.get("status").and_then(|x| x.as_str()) == Some("known") {
                        k.push((
                            e.get("property").and_then(|x| x.as_str()).unwrap_or("").to_string(),
                            e.get("signature").and_then(|x| x.as_str()).unwrap_or("").to_string(),
                            e.get("what").and_then(|x| x.as_str()).unwrap_or("").to_string(),
                        ));
                    }
                }
            }
        }
    }
}

pub fn is_known(prop: &str, sig: &str) -> Option<String> {
    KNOWN
        .lock()
        .unwrap()
        .iter()
        .find(|(p, s, _)| p == prop && s == sig)
        .map(|(_, _, w)| w.clone())
}

// ---------------------------------------------------------------------------------------
// worker

#[derive(Default)]
struct JobStats {
    sub: String,
    kind: String,
    bound: String,
    smallbuf: bool,
    evaluations: u64,
    excluded: u64,
    nontrivial: u64,
    extra_nontrivial: u64,
    labels: BTreeMap<&'static str, u64>,
    samples: Vec<Value>,
    exhaustive: bool,
    wall_s: f64,
}

struct Violation {
    sub: String,
    sig: String,
    msg: String,
    input: Input,
    render: String,
}

pub struct Watch {
    pub progress: AtomicU64,
    pub current: Mutex<(String, Option<Input>)>,
}

fn seed32(seed: u64, prop: &str, sub: &str, shard: u64) -> [u8; 32] {
    let mut out = [0u8; 32];
    let mut h = fnv64(format!("{}|{}|{}|{}", seed, prop, sub, shard).as_bytes());
    for i in 0..4 {
        h = h.wrapping_mul(6364136223846793005).wrapping_add(1442695040888963407) ^ (h >> 29);
        out[i * 8..i * 8 + 8].copy_from_slice(&h.to_le_bytes());
    }
    out
}

thread_local! {
    /// property the current process is working on (for attributing library panics)
    static CURRENT_PROP: std::cell::RefCell<String> = std::cell::RefCell::new(String::new());
    /// source location of the most recent panic on this thread
    static LAST_PANIC_AT: std::cell::RefCell<String> = std::cell::RefCell::new(String::new());
}

pub fn set_current_prop(p: &str) {
    CURRENT_PROP.with(|c| *c.borrow_mut() = p.to_string());
}

pub fn silence_panics() {
    std::panic::set_hook(Box::new(|info| {
        let at = info.location().map(|l| format!("{}:{}", l.file(), l.line())).unwrap_or_default();
        LAST_PANIC_AT.with(|c| *c.borrow_mut() = at);
    }));
}

/// A panic that escaped a sub: the library's fault (a violation: no entry point may panic) or the
/// harness' own (inconclusive)? Decided by where it was raised: harness sources are compiled with
/// relative paths (`src/...`) or live under the verification root; everything else is /repo or std
/// code running on the library's behalf.
pub fn uncaught_panic(prop: &str, p: Box<dyn std::any::Any + Send>) -> Fail {
    let msg = crate::connrun::panic_msg(p);
    let at = LAST_PANIC_AT.with(|c| c.borrow().clone());
    let harness = at.is_empty() || at.starts_with("src/") || at.contains("/verif/") || at.contains("/harness/");
    if harness {
        Fail::new("harness-panic", format!("uncaught panic at {}: {}", at, msg))
    } else {
        Fail::new(&format!("{}:library-panic", prop), format!("the library panicked at {}: {}", at, msg))
    }
}

fn run_case(
    f: SubFn,
    input: &Input,
    st: &mut JobStats,
    hashes: &mut HashSet<u64>,
    watch: &Watch,
    sub: &str,
    counting: bool,
) -> Result<(), Fail> {
    if counting {
        let mut cur = watch.current.lock().unwrap();
        cur.0 = sub.to_string();
        cur.1 = Some(input.clone());
    }
    watch.progress.fetch_add(1, Ordering::Relaxed);
    let mut obs = Obs::default();
    obs.want_render = counting && st.samples.len() < 6 && (st.evaluations % 97 == 3 || st.evaluations < 2);
    let r = std::panic::catch_unwind(std::panic::AssertUnwindSafe(|| f(input, &mut obs)));
    let r = match r {
        Ok(r) => r,
        Err(p) => Err(uncaught_panic(&CURRENT_PROP.with(|c| c.borrow().clone()), p)),
    };
    if counting {
        if obs.excluded {
            st.excluded += 1;
        } else {
            st.evaluations += 1 + obs.extra_evals;
            st.extra_nontrivial += obs.extra_nontrivial;
            st.nontrivial += obs.extra_nontrivial;
            if obs.nontrivial {
                let h = obs.case_hash.unwrap_or_else(|| input.hash());
                if hashes.insert(h) {
                    st.nontrivial += 1;
                }
            }
            for l in &obs.labels {
                *st.labels.entry(l).or_insert(0) += 1;
            }
            if obs.want_render && (obs.nontrivial || obs.extra_nontrivial > 0) && !obs.render.is_empty() {
                st.samples.push(json!({ "sub": sub, "case": obs.render, "labels": obs.labels }));
            }
        }
    }
    r
}

pub fn render_case(f: SubFn, input: &Input) -> String {
    let mut obs = Obs::default();
    obs.want_render = true;
    let _ = std::panic::catch_unwind(std::panic::AssertUnwindSafe(|| f(input, &mut obs)));
    obs.render
}

pub fn worker_main(prop: &PropDef, tier: Tier, seed: u64, shard: u64, nshards: u64, smallbuf: bool, out: &Path) -> i32 {
    silence_panics();
    CURRENT_PROP.with(|c| *c.borrow_mut() = prop.id.to_string());
    load_known();
    let watch = Arc::new(Watch { progress: AtomicU64::new(0), current: Mutex::new((String::new(), None)) });
    // watchdog: a case normally takes well under a second
    {
        let w = watch.clone();
        let hang_path = out.with_extension("hang");
        let stall_limit: u64 = std::env::var("MHV_STALL_S").ok().and_then(|x| x.parse().ok()).unwrap_or(30);
        std::thread::spawn(move || {
            let mut last = 0u64;
            let mut stalled = 0u64;
            loop {
                std::thread::sleep(std::time::Duration::from_secs(1));
                let p = w.progress.load(Ordering::Relaxed);
                if p == last && p > 0 {
                    stalled += 1;
                } else {
                    stalled = 0;
                    last = p;
                }
                if stalled >= stall_limit {
                    let cur = w.current.lock().unwrap();
                    let v = json!({ "sub": cur.0, "input": cur.1.as_ref().map(|i| i.to_json()) });
                    let _ = std::fs::write(&hang_path, v.to_string());
                    std::process::exit(3);
                }
            }
        });
    }
    if prop.id == "C12" {
        // descriptor numbers are part of what is passed around: with stdin closed the lowest
        // numbers (0 included) get used for the descriptors the cases create and receive
        unsafe { libc::close(0) };
    }
    let jobs = (prop.plan)(tier);
    let mut stats: Vec<JobStats> = Vec::new();
    let mut violations: Vec<Violation> = Vec::new();
    let mut hashes: HashSet<u64> = HashSet::new();
    for job in jobs.iter().filter(|j| j.smallbuf == smallbuf) {
        let f = match prop.sub(job.sub) {
            Some(f) => f,
            None => continue,
        };
        let t0 = Instant::now();
        let mut st = JobStats { sub: job.sub.to_string(), smallbuf, ..Default::default() };
        match &job.kind {
            JobKind::Pbt { cases, max_len } => {
                st.kind = "pbt".into();
                let my_cases = cases / nshards + if shard < cases % nshards { 1 } else { 0 };
                if my_cases > 0 {
                    let mut cfg = Config::default();
                    cfg.cases = my_cases as u32;
                    cfg.failure_persistence = None;
                    cfg.max_shrink_iters = 4000;
                    cfg.max_shrink_time = 20_000; // ms; the failure is already established, only minimisation is cut short
                    cfg.verbose = 0;
                    cfg.rng_algorithm = RngAlgorithm::ChaCha;
                    cfg.max_global_rejects = 1;
                    let rng = TestRng::from_seed(RngAlgorithm::ChaCha, &seed32(seed, prop.id, job.sub, shard));
                    let mut runner = TestRunner::new_with_rng(cfg, rng);
                    let strat = proptest::collection::vec(proptest::num::u8::ANY, 0..=*max_len).prop_map(Input::Bytes);
                    let failed = std::cell::Cell::new(false);
                    let last_fail: std::cell::RefCell<Option<Fail>> = std::cell::RefCell::new(None);
                    let stp = std::cell::RefCell::new(&mut st);
                    let hp = std::cell::RefCell::new(&mut hashes);
                    let res = runner.run(&strat, |input| {
                        let counting = !failed.get();
                        let r = run_case(f, &input, &mut stp.borrow_mut(), &mut hp.borrow_mut(), &watch, job.sub, counting);
                        match r {
                            Ok(()) => Ok(()),
                            Err(fl) => {
                                // keep shrinking inside one failure class
                                let same = last_fail.borrow().as_ref().map(|l| l.sig == fl.sig).unwrap_or(true);
                                if !failed.get() || same {
                                    failed.set(true);
                                    let m = fl.msg.clone();
                                    *last_fail.borrow_mut() = Some(fl);
                                    Err(TestCaseError::fail(m))
                                } else {
                                    Ok(())
                                }
                            }
                        }
                    });
                    if let Err(TestError::Fail(_, minimal)) = res {
                        // re-run the minimal input for message and rendering
                        let mut obs = Obs::default();
                        obs.want_render = true;
                        let r = std::panic::catch_unwind(std::panic::AssertUnwindSafe(|| f(&minimal, &mut obs)));
                        let fl = match r {
                            Ok(Err(fl)) => fl,
                            Ok(Ok(())) => last_fail.borrow().clone().unwrap_or(Fail::new("flaky", "failure did not reproduce on the minimal input".into())),
                            Err(p) => uncaught_panic(prop.id, p),
                        };
                        violations.push(Violation { sub: job.sub.to_string(), sig: fl.sig, msg: fl.msg, input: minimal, render: obs.render });
                    } else if let Err(TestError::Abort(r)) = res {
                        eprintln!("proptest aborted: {}", r);
                    }
                }
            }
            JobKind::Enum { f: ef, bound } => {
                st.kind = "enum".into();
                st.bound = bound.to_string();
                st.exhaustive = true;
                let mut first: Option<(Fail, Input)> = None;
                ef(tier, shard, nshards, &mut |params: &[u64]| {
                    let input = Input::Params(params.to_vec());
                    match run_case(f, &input, &mut st, &mut hashes, &watch, job.sub, true) {
                        Ok(()) => true,
                        Err(fl) => {
                            first = Some((fl, input));
                            false
                        }
                    }
                });
                if let Some((fl, input)) = first {
                    st.exhaustive = false;
                    let render = render_case(f, &input);
                    violations.push(Violation { sub: job.sub.to_string(), sig: fl.sig, msg: fl.msg, input, render });
                }
            }
        }
        st.wall_s = t0.elapsed().as_secs_f64();
        stats.push(st);
    }
    // write results
    let hpath = out.with_extension("hashes");
    {
        let mut f = std::io::BufWriter::new(std::fs::File::create(&hpath).expect("hash file"));
        for h in &hashes {
            let _ = f.write_all(&h.to_le_bytes());
        }
    }
    let v = json!({
        "jobs": stats.iter().map(|s| json!({
            "sub": s.sub, "kind": s.kind, "bound": s.bound, "smallbuf": s.smallbuf,
            "evaluations": s.evaluations, "excluded": s.excluded, "nontrivial": s.nontrivial, "extra_nontrivial": s.extra_nontrivial,
            "labels": s.labels.iter().map(|(k, v)| (k.to_string(), json!(v))).collect::<serde_json::Map<String, Value>>(),
            "samples": s.samples, "exhaustive": s.exhaustive, "wall_s": s.wall_s,
        })).collect::<Vec<_>>(),
        "violations": violations.iter().map(|v| json!({
            "sub": v.sub, "sig": v.sig, "msg": v.msg, "input": v.input.to_json(), "render": v.render, "smallbuf": smallbuf,
        })).collect::<Vec<_>>(),
    });
    std::fs::write(out, v.to_string()).expect("write worker result");
    0
}

// ---------------------------------------------------------------------------------------
// parent

pub fn smallbuf_bin() -> Option<PathBuf> {
    if let Ok(p) = std::env::var("MHV_SMALLBUF_BIN") {
        let p = PathBuf::from(p);
        return if p.exists() { Some(p) } else { None };
    }
    let p = verif_root().join("harness/target-smallbuf/release/mhv");
    if p.exists() {
        Some(p)
    } else {
        None
    }
}

fn write_replay(prop: &str, v: &Value) -> PathBuf {
    let dir = verif_root().join("replays");
    let _ = std::fs::create_dir_all(&dir);
    let h = fnv64(v.to_string().as_bytes());
    let p = dir.join(format!("{}-{}-{:016x}.json", prop, v["sub"].as_str().unwrap_or("x"), h));
    let mut r = v.clone();
    r["property"] = json!(prop);
    let _ = std::fs::write(&p, serde_json::to_string_pretty(&r).unwrap());
    p
}

pub struct RunOutcome {
    pub exit: i32,
}

pub fn parent_main(prop: &PropDef, tier: Tier, seed: u64) -> i32 {
    load_known();
    let t0 = Instant::now();
    let root = verif_root();
    let scratch = root.join(".scratch").join(format!("run-{}-{}", prop.id, std::process::id()));
    let _ = std::fs::create_dir_all(&scratch);
    let jobs = (prop.plan)(tier);
    let need_small = jobs.iter().any(|j| j.smallbuf);
    let need_norm = jobs.iter().any(|j| !j.smallbuf);
    let ncpu: u64 = std::env::var("MHV_JOBS").ok().and_then(|x| x.parse().ok()).unwrap_or(16);
    let exe = std::env::current_exe().expect("current exe");
    let sb = smallbuf_bin();
    let mut notes: Vec<String> = Vec::new();
    if need_small && sb.is_none() {
        notes.push("small-buffer build not available: the B=32 enumerations were skipped".into());
    }
    let tier_s = if tier == Tier::Quick { "quick" } else { "thorough" };

    // regression inputs first (plain replays that bypass proptest)
    let mut violations: Vec<Value> = Vec::new();
    let mut regress_n = 0u64;
    let rdir = root.join("regress").join(prop.id);
    if let Ok(rd) = std::fs::read_dir(&rdir) {
        let mut files: Vec<PathBuf> = rd.filter_map(|e| e.ok().map(|e| e.path())).filter(|p| p.extension().map(|e| e == "json").unwrap_or(false)).collect();
        files.sort();
        for p in files {
            if let Ok(text) = std::fs::read_to_string(&p) {
                if let Ok(v) = serde_json::from_str::<Value>(&text) {
                    let small = v.get("smallbuf").and_then(|x| x.as_bool()).unwrap_or(false);
                    regress_n += 1;
                    if small {
                        if let Some(sbp) = &sb {
                            let st = std::process::Command::new(sbp).arg("replay").arg(&p).arg("--quiet").status();
                            if let Ok(st) = st {
                                if st.code() == Some(1) {
                                    let mut vv = v.clone();
                                    vv["regress_file"] = json!(p.to_string_lossy());
                                    vv["msg"] = json!(format!("regression input fails again: {}", v["msg"].as_str().unwrap_or("")));
                                    violations.push(vv);
                                }
                            }
                        }
                    } else if let (Some(sub), Some(input)) = (v.get("sub").and_then(|x| x.as_str()), v.get("input").and_then(Input::from_json)) {
                        if let Some(f) = prop.sub(sub) {
                            silence_panics();
                            let mut obs = Obs::default();
                            obs.want_render = true;
                            let r = std::panic::catch_unwind(std::panic::AssertUnwindSafe(|| f(&input, &mut obs)));
                            let fl = match r {
                                Ok(Ok(())) => None,
                                Ok(Err(fl)) => Some(fl),
                                Err(pn) => Some(uncaught_panic(prop.id, pn)),
                            };
                            if let Some(fl) = fl {
                                violations.push(json!({"sub": sub, "sig": fl.sig, "msg": format!("regression input {} fails: {}", p.display(), fl.msg), "input": input.to_json(), "render": obs.render, "smallbuf": false}));
                            }
                        }
                    }
                }
            }
        }
    }

    // spawn workers
    let mut children = Vec::new();
    let mut spawn = |bin: &Path, small: bool, n: u64| {
        for shard in 0..n {
            let out = scratch.join(format!("w-{}-{}.json", if small { "s" } else { "n" }, shard));
            let mut cmd = std::process::Command::new(bin);
            cmd.arg("worker").arg(prop.id).arg(tier_s).arg(seed.to_string()).arg(shard.to_string()).arg(n.to_string()).arg(&out);
            cmd.env("MHV_ROOT", &root);
            cmd.env("MHV_SCRATCH", scratch.join(format!("ws-{}-{}", if small { "s" } else { "n" }, shard)));
            match cmd.spawn() {
                Ok(c) => children.push((c, out, small, shard)),
                Err(e) => eprintln!("spawn failed: {}", e),
            }
        }
    };
    let (n_norm, n_small) = match (need_norm, need_small && sb.is_some()) {
        (true, true) => (ncpu.max(2) * 5 / 8, ncpu.max(2) * 3 / 8),
        (true, false) => (ncpu, 0),
        (false, true) => (0, ncpu),
        _ => (0, 0),
    };
    if n_norm > 0 {
        spawn(&exe, false, n_norm);
    }
    if n_small > 0 {
        spawn(sb.as_ref().unwrap(), true, n_small);
    }
    let mut inconclusive = false;
    let mut hang_confirmed = false;
    let mut merged: BTreeMap<String, Value> = BTreeMap::new();
    let mut all_hashes: HashSet<u64> = HashSet::new();
    for (mut c, out, small, shard) in children {
        let st = c.wait();
        let code = st.ok().and_then(|s| s.code());
        if code == Some(3) && hang_confirmed {
            inconclusive = true;
            continue;
        }
        if code == Some(3) {
            // stalled case: confirm (once per run) in a fresh process with a longer limit
            hang_confirmed = true;
            let hang = out.with_extension("hang");
            if let Ok(text) = std::fs::read_to_string(&hang) {
                if let Ok(v) = serde_json::from_str::<Value>(&text) {
                    let rp = write_replay(prop.id, &json!({"sub": v["sub"], "input": v["input"], "smallbuf": small, "sig": "hang", "msg": "case did not finish"}));
                    let bin = if small { sb.clone().unwrap() } else { exe.clone() };
                    let mut ch = std::process::Command::new(&bin).arg("replay").arg(&rp).arg("--quiet").spawn().ok();
                    let mut finished = false;
                    let tstart = Instant::now();
                    while tstart.elapsed().as_secs() < 60 {
                        if let Some(chh) = ch.as_mut() {
                            if let Ok(Some(_)) = chh.try_wait() {
                                finished = true;
                                break;
                            }
                        }
                        std::thread::sleep(std::time::Duration::from_millis(200));
                    }
                    if !finished {
                        if let Some(chh) = ch.as_mut() {
                            let _ = chh.kill();
                        }
                        // non-termination is itself a violation where the statement forbids blocking/hanging
                        if ["C03", "C08", "C09", "C18"].contains(&prop.id) {
                            violations.push(json!({"sub": v["sub"], "sig": "hang", "msg": "the case does not terminate (stalled for 30 s in the worker, then 60 s alone in a fresh process)", "input": v["input"], "render": "", "smallbuf": small}));
                        } else {
                            inconclusive = true;
                            notes.push(format!("worker {} stalled on a case (replay {}); inconclusive", shard, rp.display()));
                        }
                    } else {
                        inconclusive = true;
                        notes.push(format!("worker {} stalled but the case finishes alone; inconclusive", shard));
                    }
                }
            } else {
                inconclusive = true;
            }
            continue;
        }
        if code != Some(0) {
            inconclusive = true;
            notes.push(format!("worker {}{} exited with {:?}", if small { "s" } else { "n" }, shard, code));
            continue;
        }
        let text = match std::fs::read_to_string(&out) {
            Ok(t) => t,
            Err(_) => {
                inconclusive = true;
                continue;
            }
        };
        let v: Value = match serde_json::from_str(&text) {
            Ok(v) => v,
            Err(_) => {
                inconclusive = true;
                continue;
            }
        };
        if let Ok(hb) = std::fs::read(out.with_extension("hashes")) {
            for ch in hb.chunks_exact(8) {
                all_hashes.insert(u64::from_le_bytes(ch.try_into().unwrap()));
            }
        }
        for j in v["jobs"].as_array().cloned().unwrap_or_default() {
            let key = format!("{}{}", j["sub"].as_str().unwrap_or(""), if j["smallbuf"].as_bool().unwrap_or(false) { "@B32" } else { "" });
            let e = merged.entry(key).or_insert_with(|| json!({"sub": j["sub"], "kind": j["kind"], "bound": j["bound"], "smallbuf": j["smallbuf"], "evaluations": 0u64, "excluded": 0u64, "nontrivial": 0u64, "extra_nontrivial": 0u64, "labels": {}, "samples": [], "exhaustive": j["exhaustive"], "wall_s": 0.0}));
            for k in ["evaluations", "excluded", "nontrivial", "extra_nontrivial"] {
                e[k] = json!(e[k].as_u64().unwrap_or(0) + j[k].as_u64().unwrap_or(0));
            }
            if !j["exhaustive"].as_bool().unwrap_or(false) {
                e["exhaustive"] = json!(false);
            }
            if j["wall_s"].as_f64().unwrap_or(0.0) > e["wall_s"].as_f64().unwrap_or(0.0) {
                e["wall_s"] = j["wall_s"].clone();
            }
            if let Some(l) = j["labels"].as_object() {
                for (k, n) in l {
                    let cur = e["labels"].get(k).and_then(|x| x.as_u64()).unwrap_or(0);
                    e["labels"][k] = json!(cur + n.as_u64().unwrap_or(0));
                }
            }
            if let Some(sa) = j["samples"].as_array() {
                let arr = e["samples"].as_array_mut().unwrap();
                for s in sa {
                    if arr.len() < 4 {
                        arr.push(s.clone());
                    }
                }
            }
        }
        for viol in v["violations"].as_array().cloned().unwrap_or_default() {
            violations.push(viol);
        }
    }

    // classify violations
    let mut exit = 0;
    let mut lines: Vec<String> = Vec::new();
    let mut nviol = 0;
    let mut seen_sig: HashSet<String> = HashSet::new();
    for v in &violations {
        let sig = v["sig"].as_str().unwrap_or("").to_string();
        if let Some(what) = is_known(prop.id, &sig) {
            if seen_sig.insert(format!("K{}", sig)) {
                lines.push(format!("KNOWN-FINDING: property={} {} [{}]", prop.id, what, sig));
            }
            continue;
        }
        if sig == "harness-window" || sig == "harness-panic" || sig == "harness-world" {
            inconclusive = true;
            notes.push(format!("harness precondition failed: {}", v["msg"].as_str().unwrap_or("")));
            continue;
        }
        let rp = write_replay(prop.id, v);
        nviol += 1;
        if seen_sig.insert(sig.clone()) || nviol <= 3 {
            lines.push(format!("VIOLATION property={} replay={}", prop.id, rp.display()));
            lines.push(format!("  [{}] {}: {}", v["sub"].as_str().unwrap_or(""), sig, v["msg"].as_str().unwrap_or("")));
            let r = v["render"].as_str().unwrap_or("");
            if !r.is_empty() {
                for l in r.lines().take(40) {
                    lines.push(format!("    {}", l));
                }
            }
        }
        exit = 1;
    }

    // evidence
    let total_eval: u64 = merged.values().map(|j| j["evaluations"].as_u64().unwrap_or(0)).sum();
    let total_excl: u64 = merged.values().map(|j| j["excluded"].as_u64().unwrap_or(0)).sum();
    let total_extra_nt: u64 = merged.values().map(|j| j["extra_nontrivial"].as_u64().unwrap_or(0)).sum();
    let mut samples: Vec<Value> = Vec::new();
    for j in merged.values() {
        if let Some(sa) = j["samples"].as_array() {
            for s in sa.iter().take(3) {
                samples.push(s.clone());
            }
        }
    }
    let mut labels: BTreeMap<String, u64> = BTreeMap::new();
    for j in merged.values() {
        if let Some(l) = j["labels"].as_object() {
            for (k, n) in l {
                *labels.entry(k.clone()).or_insert(0) += n.as_u64().unwrap_or(0);
            }
        }
    }
    let all_enum_exhaustive = merged.values().filter(|j| j["kind"] == "enum").all(|j| j["exhaustive"].as_bool().unwrap_or(false));
    let any_enum = merged.values().any(|j| j["kind"] == "enum");
    let all_enum = merged.values().all(|j| j["kind"] == "enum");
    let wall = t0.elapsed().as_secs_f64();
    let ev = json!({
        "property_id": prop.id,
        "tier": tier_s,
        "seed": seed,
        "level": "exploration",
        "coverage": {
            "evaluations": total_eval + regress_n,
            "distinct_nontrivial": all_hashes.len() as u64 + total_extra_nt,
            "rule": prop.rule,
            "samples": samples,
            "labels": labels,
            "jobs": merged.values().map(|j| { let mut j = j.clone(); j.as_object_mut().unwrap().remove("samples"); j }).collect::<Vec<_>>(),
            "exhaustive": all_enum && all_enum_exhaustive && !merged.is_empty(),
            "exhaustive_parts": if any_enum { merged.values().filter(|j| j["kind"] == "enum" && j["exhaustive"].as_bool().unwrap_or(false)).map(|j| json!({"sub": j["sub"], "bound": j["bound"]})).collect::<Vec<_>>() } else { vec![] },
            "excluded_by_construction": total_excl,
            "regression_inputs_replayed": regress_n,
            "workers": {"normal": n_norm, "smallbuf": n_small},
            "notes": notes,
        },
        "assumptions": prop.assumptions,
        "wall_s": wall,
        "violations": nviol,
    });
    let edir = root.join("evidence");
    let _ = std::fs::create_dir_all(&edir);
    let _ = std::fs::write(edir.join(format!("{}.json", prop.id)), serde_json::to_string_pretty(&ev).unwrap());
    let _ = std::fs::remove_dir_all(&scratch);

    for l in &lines {
        println!("{}", l);
    }
    if exit == 0 && inconclusive {
        println!("INCONCLUSIVE property={} {}", prop.id, notes.join("; "));
        return 2;
    }
    if exit == 0 {
        println!(
            "OK property={} tier={} seed={} evaluations={} distinct_nontrivial={} wall={:.1}s",
            prop.id, tier_s, seed, total_eval + regress_n, all_hashes.len() as u64 + total_extra_nt, wall
        );
    }
    exit
}

pub fn replay_main(props: &[PropDef], file: &Path, quiet: bool) -> i32 {
    silence_panics();
    load_known();
    let text = match std::fs::read_to_string(file) {
        Ok(t) => t,
        Err(e) => {
            eprintln!("cannot read {}: {}", file.display(), e);
            return 2;
        }
    };
    let v: Value = match serde_json::from_str(&text) {
        Ok(v) => v,
        Err(e) => {
            eprintln!("bad replay file: {}", e);
            return 2;
        }
    };
    let pid = v["property"].as_str().unwrap_or("");
    let small = v["smallbuf"].as_bool().unwrap_or(false);
    if small != cfg!(feature = "smallbuf") {
        // hand over to the right build
        let bin = if small { smallbuf_bin() } else { Some(verif_root().join("harness/target/release/mhv")) };
        if let Some(bin) = bin {
            let mut c = std::process::Command::new(bin);
            c.arg("replay").arg(file);
            if quiet {
                c.arg("--quiet");
            }
            return c.status().ok().and_then(|s| s.code()).unwrap_or(2);
        }
        eprintln!("build variant for this replay is not available");
        return 2;
    }
    let prop = match props.iter().find(|p| p.id == pid) {
        Some(p) => p,
        None => {
            eprintln!("unknown property {:?}", pid);
            return 2;
        }
    };
    let sub = v["sub"].as_str().unwrap_or("");
    let f = match prop.sub(sub) {
        Some(f) => f,
        None => {
            eprintln!("unknown sub {:?}", sub);
            return 2;
        }
    };
    let input = match v.get("input").and_then(Input::from_json) {
        Some(i) => i,
        None => {
            eprintln!("no input in replay file");
            return 2;
        }
    };
    let mut obs = Obs::default();
    obs.want_render = true;
    let r = std::panic::catch_unwind(std::panic::AssertUnwindSafe(|| f(&input, &mut obs)));
    let fl = match r {
        Ok(Ok(())) => None,
        Ok(Err(fl)) => Some(fl),
        Err(p) => Some(uncaught_panic(pid, p)),
    };
    if !quiet {
        println!("{}", obs.render);
    }
    match fl {
        None => {
            if !quiet {
                println!("PASS property={} sub={} (no violation on this tree)", pid, sub);
            }
            0
        }
        Some(fl) => {
            if !quiet {
                println!("VIOLATION property={} replay={}", pid, file.display());
                println!("  [{}] {}: {}", sub, fl.sig, fl.msg);
            }
            1
        }
    }
}
