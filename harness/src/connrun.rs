//! Driving a real `HttpConnection<ScriptedStream>` one read at a time, with panics
//! caught, call counters checked, and the REF prefix oracle (DESIGN 2.2) applied.

use std::cell::RefCell;
use std::collections::BTreeMap;
use std::panic::{catch_unwind, AssertUnwindSafe};
use std::rc::Rc;

use micro_http::{ConnectionError, HttpConnection, HttpHeaderError, MediaType, Method, Request, RequestError, Version};

use crate::refparse::*;
use crate::respread::{rr_parse, RrEnd};
use crate::src::esc;
use crate::stream::*;

#[derive(Clone, Debug, PartialEq, Eq)]
pub struct Delivered {
    pub method: u8,
    pub uri_dbg: String,
    pub abs_path: String,
    pub version: u8,
    pub cl: u32,
    pub expect: bool,
    pub chunked: bool,
    pub accept: Media,
    pub custom: BTreeMap<String, String>,
    pub body: Option<Vec<u8>>,
    pub nfiles: usize,
}

pub fn method_code(m: Method) -> u8 {
    match m {
        Method::Get => 0,
        Method::Put => 1,
        Method::Patch => 2,
    }
}
pub fn version_code(v: Version) -> u8 {
    match v {
        Version::Http10 => 0,
        Version::Http11 => 1,
    }
}
pub fn media_code(m: MediaType) -> Media {
    match m {
        MediaType::PlainText => Media::Plain,
        MediaType::ApplicationJson => Media::Json,
    }
}

pub fn delivered_of(r: &Request) -> Delivered {
    Delivered {
        method: method_code(r.method()),
        uri_dbg: format!("{:?}", r.uri()),
        abs_path: r.uri().get_abs_path().to_string(),
        version: version_code(r.http_version()),
        cl: r.headers.content_length(),
        expect: r.headers.expect(),
        chunked: r.headers.chunked(),
        accept: media_code(r.headers.accept()),
        custom: r.headers.custom_entries().iter().map(|(k, v)| (k.clone(), v.clone())).collect(),
        body: r.body.as_ref().map(|b| b.raw().to_vec()),
        nfiles: r.files.len(),
    }
}

/// Compare a delivered request with what REF says the bytes mean. `None` = equal.
pub fn diff_delivered(d: &Delivered, r: &RefRequest) -> Option<String> {
    if d.method != r.method {
        return Some(format!("method {} != {}", d.method, r.method));
    }
    let uri = String::from_utf8_lossy(&r.uri).to_string();
    // the URI has no public accessor; its Debug rendering must contain the verbatim string
    // (only when the rendering has the derived shape `Uri { string: "..." }`; a hand-written
    // Debug is not judged)
    if d.uri_dbg.contains("string: \"") && !d.uri_dbg.contains(&format!("{:?}", uri)) {
        return Some(format!("uri {} does not show {:?}", d.uri_dbg, uri));
    }
    if d.abs_path != ref_abs_path(&uri) {
        return Some(format!("abs_path {:?} != {:?}", d.abs_path, ref_abs_path(&uri)));
    }
    if d.version != r.version {
        return Some(format!("version {} != {}", d.version, r.version));
    }
    if d.cl != r.headers.content_length {
        return Some(format!("content_length {} != {}", d.cl, r.headers.content_length));
    }
    if d.expect != r.headers.expect {
        return Some(format!("expect {} != {}", d.expect, r.headers.expect));
    }
    if d.chunked != r.headers.chunked {
        return Some(format!("chunked {} != {}", d.chunked, r.headers.chunked));
    }
    if d.accept != r.headers.accept {
        return Some(format!("accept {:?} != {:?}", d.accept, r.headers.accept));
    }
    if d.custom != r.headers.custom {
        return Some(format!("custom {:?} != {:?}", d.custom, r.headers.custom));
    }
    if d.body != r.body {
        return Some(format!(
            "body {:?} != {:?}",
            d.body.as_ref().map(|b| esc(b)),
            r.body.as_ref().map(|b| esc(b))
        ));
    }
    None
}

#[derive(Clone, Debug, PartialEq, Eq)]
pub enum PKind {
    InvalidRequest,
    Method,
    Uri,
    Version,
    Header(&'static str),
    Payload(usize, usize),
    Internal(&'static str),
}

pub fn pkind_of(e: &RequestError) -> PKind {
    match e {
        RequestError::InvalidRequest => PKind::InvalidRequest,
        RequestError::InvalidHttpMethod(_) => PKind::Method,
        RequestError::InvalidUri(_) => PKind::Uri,
        RequestError::InvalidHttpVersion(_) => PKind::Version,
        RequestError::HeaderError(h) => PKind::Header(match h {
            HttpHeaderError::InvalidFormat(_) => "InvalidFormat",
            HttpHeaderError::InvalidUtf8String(_) => "InvalidUtf8String",
            HttpHeaderError::InvalidValue(_, _) => "InvalidValue",
            HttpHeaderError::SizeLimitExceeded(_) => "SizeLimitExceeded",
            HttpHeaderError::UnsupportedFeature(_, _) => "UnsupportedFeature",
            HttpHeaderError::UnsupportedName(_) => "UnsupportedName",
            HttpHeaderError::UnsupportedValue(_, _) => "UnsupportedValue",
        }),
        RequestError::SizeLimitExceeded(a, b) => PKind::Payload(*a, *b),
        RequestError::Overflow => PKind::Internal("Overflow"),
        RequestError::Underflow => PKind::Internal("Underflow"),
        RequestError::BodyWithoutPendingRequest => PKind::Internal("BodyWithoutPendingRequest"),
        RequestError::HeadersWithoutPendingRequest => PKind::Internal("HeadersWithoutPendingRequest"),
    }
}

/// Does the reported error name the element REF found faulty? (granularity: DESIGN 2.2)
pub fn err_matches(k: &PKind, r: &RefErr) -> bool {
    match r {
        RefErr::ReqLine(RlFault::Shape) | RefErr::ReqLineTooLong => *k == PKind::InvalidRequest,
        RefErr::ReqLine(RlFault::Method) => *k == PKind::Method,
        RefErr::ReqLine(RlFault::Uri) => *k == PKind::Uri,
        RefErr::ReqLine(RlFault::Version) => *k == PKind::Version,
        RefErr::Header(HFault::EmptyAcceptEncoding) => {
            matches!(k, PKind::Header(v) if *v != "UnsupportedValue") || *k == PKind::InvalidRequest
        }
        RefErr::Header(_) => matches!(k, PKind::Header(v) if *v != "UnsupportedValue"),
        RefErr::Payload { limit, n } => *k == PKind::Payload(*limit, *n),
    }
}

#[derive(Clone, Debug, PartialEq, Eq)]
pub enum RRes {
    Ok,
    Parse(PKind, String),
    ReadErr(i32),
    Closed,
    Other(String),
    Panic(String),
}

pub fn rres_of(r: Result<(), ConnectionError>) -> RRes {
    match r {
        Ok(()) => RRes::Ok,
        Err(ConnectionError::ParseError(e)) => RRes::Parse(pkind_of(&e), format!("{:?}", e)),
        Err(ConnectionError::StreamReadError(e)) => RRes::ReadErr(e.errno()),
        Err(ConnectionError::ConnectionClosed) => RRes::Closed,
        Err(e) => RRes::Other(format!("{:?}", e)),
    }
}

#[derive(Clone, Debug)]
pub struct Step {
    pub ev: ReadEv,
    pub iov_len: usize,
    pub got: usize,
    pub res: RRes,
    pub reqs: Vec<Delivered>,
    /// bytes obtained by draining try_write after this read (if draining is on)
    pub out: Vec<u8>,
    pub consumed_after: usize,
    pub recv_calls: usize,
}

pub struct ConnRun {
    pub conn: HttpConnection<ScriptedStream>,
    pub ss: Rc<RefCell<Script>>,
    pub consumed: usize,
    pub steps: Vec<Step>,
    pub drain: bool,
    pub window: usize,
    /// keep the popped `Request` objects alive (C12 inspects their files)
    pub keep: bool,
    pub kept: Vec<(usize, Request)>,
    /// leave parsed requests queued inside the connection after a read (popped by `pop_some`)
    pub defer_pop: bool,
    /// the owner answers every delivered request (a small 200) and, after the reads whose bit is
    /// set, writes everything out; the output is not recorded in the steps
    pub auto_respond: Option<u32>,
    /// reads after which the owner's write attempt fails instead (EPIPE / EAGAIN / zero): the
    /// queued output is lost, nothing on the receive side is
    pub auto_fail: u32,
}

thread_local! {
    /// picked up by the next `ConnRun::new` calls on this thread (None: off)
    pub static AUTO_RESPOND: std::cell::Cell<Option<u32>> = std::cell::Cell::new(None);
    pub static AUTO_FAIL: std::cell::Cell<u32> = std::cell::Cell::new(0);
    /// picked up (and cleared) by the next `drive_prefix` with a prelude: the owner configures the
    /// payload limit only after this many bytes of the prelude (which is then received in two
    /// reads) have been read, i.e. while the request that is about to be rejected is in flight
    pub static LATE_LIMIT_AT: std::cell::Cell<Option<usize>> = std::cell::Cell::new(None);
}

pub fn panic_msg(e: Box<dyn std::any::Any + Send>) -> String {
    if let Some(s) = e.downcast_ref::<&str>() {
        s.to_string()
    } else if let Some(s) = e.downcast_ref::<String>() {
        s.clone()
    } else {
        "panic".to_string()
    }
}

impl ConnRun {
    pub fn new(stream: Vec<u8>, limit: Option<usize>, drain: bool) -> ConnRun {
        let (st, ss) = ScriptedStream::new(stream);
        let mut conn = HttpConnection::new(st);
        if let Some(l) = limit {
            conn.set_payload_max_size(l);
        }
        ConnRun { conn, ss, consumed: 0, steps: Vec::new(), drain, window: 0, keep: false, kept: Vec::new(), defer_pop: false, auto_respond: AUTO_RESPOND.with(|c| c.get()), auto_fail: AUTO_FAIL.with(|c| c.get()) }
    }

    pub fn remaining(&self) -> usize {
        let s = self.ss.borrow();
        s.input.len() - s.pos
    }

    /// Append more bytes to the stream (continuations).
    pub fn feed(&mut self, more: &[u8]) {
        self.ss.borrow_mut().input.extend_from_slice(more);
    }

    /// Drain pending output with accept-all writes. Err = protocol breach (message).
    pub fn drain_out(&mut self) -> Result<Vec<u8>, String> {
        let before = self.ss.borrow().out.len();
        let mut guard = 0;
        while self.conn.pending_write() {
            self.ss.borrow_mut().next_write = Some(WriteEv::All);
            let calls = self.ss.borrow().write_calls;
            let r = catch_unwind(AssertUnwindSafe(|| self.conn.try_write()));
            match r {
                Err(p) => return Err(format!("panic in try_write: {}", panic_msg(p))),
                Ok(Err(e)) => return Err(format!("try_write with pending output and an accepting stream failed: {:?}", e)),
                Ok(Ok(())) => {}
            }
            if self.ss.borrow().write_calls != calls + 1 {
                return Err(format!("try_write performed {} writes", self.ss.borrow().write_calls - calls));
            }
            guard += 1;
            if guard > 10_000 {
                return Err("pending_write never clears".into());
            }
        }
        Ok(self.ss.borrow().out[before..].to_vec())
    }

    /// One `try_read` under `ev`. Pops every parsed request afterwards.
    pub fn read(&mut self, ev: ReadEv) -> Result<&Step, String> {
        let (calls0, log0, pr0, w0) = {
            let mut s = self.ss.borrow_mut();
            s.next_read = Some(ev.clone());
            (s.recv_calls, s.read_log.len(), s.plain_read_calls, s.write_calls)
        };
        let r = catch_unwind(AssertUnwindSafe(|| self.conn.try_read()));
        let res = match r {
            Ok(r) => rres_of(r),
            Err(p) => RRes::Panic(panic_msg(p)),
        };
        let (recv_calls, iov_len, got) = {
            let mut s = self.ss.borrow_mut();
            s.next_read = None;
            let calls = s.recv_calls - calls0;
            let (iov, got) = if s.read_log.len() > log0 {
                let r = &s.read_log[log0];
                (r.iov_len, r.got)
            } else {
                (0, 0)
            };
            if s.plain_read_calls != pr0 {
                return Err("try_read used Read::read on the stream".into());
            }
            if s.write_calls != w0 {
                return Err("try_read wrote to the stream".into());
            }
            (calls, iov, got)
        };
        if self.window == 0 && iov_len > 0 {
            self.window = iov_len;
        }
        self.consumed += got;
        let mut reqs = Vec::new();
        while !self.defer_pop {
            let p = catch_unwind(AssertUnwindSafe(|| self.conn.pop_parsed_request()));
            match p {
                Ok(Some(r)) => {
                    reqs.push(delivered_of(&r));
                    if self.keep {
                        self.kept.push((self.steps.len(), r));
                    }
                }
                Ok(None) => break,
                Err(p) => return Err(format!("panic in pop_parsed_request: {}", panic_msg(p))),
            }
        }
        let out = if self.drain { self.drain_out()? } else { Vec::new() };
        if let Some(mask) = self.auto_respond {
            for _ in 0..reqs.len() {
                let mut r = micro_http::Response::new(micro_http::Version::Http11, micro_http::StatusCode::OK);
                r.set_body(micro_http::Body::new("ok"));
                self.conn.enqueue_response(r);
            }
            let bit = self.steps.len() % 32;
            if (self.auto_fail >> bit) & 1 == 1 && self.conn.pending_write() {
                let ev = [WriteEv::Epipe, WriteEv::Eagain, WriteEv::Zero][bit % 3];
                self.ss.borrow_mut().next_write = Some(ev);
                let r = catch_unwind(AssertUnwindSafe(|| self.conn.try_write()));
                self.ss.borrow_mut().next_write = None;
                if let Err(p) = r {
                    return Err(format!("panic in try_write: {}", panic_msg(p)));
                }
            } else if (mask >> bit) & 1 == 1 && self.conn.pending_write() {
                self.drain_out()?;
            }
        }
        self.steps.push(Step { ev, iov_len, got, res, reqs, out, consumed_after: self.consumed, recv_calls });
        Ok(self.steps.last().unwrap())
    }
}

impl ConnRun {
    /// Pop up to `n` queued requests (keeping them if `keep`); returns how many were popped.
    pub fn pop_some(&mut self, n: usize) -> Result<usize, String> {
        let mut k = 0;
        while k < n {
            let p = catch_unwind(AssertUnwindSafe(|| self.conn.pop_parsed_request()));
            match p {
                Ok(Some(r)) => {
                    if self.keep {
                        self.kept.push((self.steps.len(), r));
                    }
                    k += 1;
                }
                Ok(None) => break,
                Err(p) => return Err(format!("panic in pop_parsed_request: {}", panic_msg(p))),
            }
        }
        Ok(k)
    }
}

// ---------------------------------------------------------------------------------------
// the prefix oracle

#[derive(Default, Clone, Debug)]
pub struct RunInfo {
    pub labels: Vec<&'static str>,
    pub delivered: usize,
    pub error: Option<RRes>,
    pub data_reads: usize,
    pub cut_inside_element: bool,
    pub transcript: Vec<(Vec<Delivered>, Option<PKind>)>,
    pub reads_desc: Vec<i64>,
    pub out: Vec<u8>,
    pub ended_by_error: bool,
}

impl RunInfo {
    pub fn label(&mut self, l: &'static str) {
        if !self.labels.contains(&l) {
            self.labels.push(l);
        }
    }
}

pub struct Oracle<'a> {
    pub stream: &'a [u8],
    pub reqs: &'a [RefRequest],
    pub end: &'a End,
    pub check_100: bool,
}

/// Feed `stream` to a connection; `sched` supplies each read. After every read compare with
/// REF in prefix form. Stops at the first parse error, at Eof, or when the stream is
/// consumed. `Err((sig, msg))` = oracle breach.
pub fn drive_prefix(
    stream: &[u8],
    reqs: &[RefRequest],
    end: &End,
    limit: Option<usize>,
    b_expected: usize,
    check_100: bool,
    sched: &mut dyn FnMut(usize, usize, usize) -> ReadEv, // (consumed, total, window)
    max_reads: usize,
    prelude: &[u8],
) -> Result<RunInfo, (String, String)> {
    // `prelude` (if any) is a chunk that ends in a parse error; it is delivered in one read of
    // its own before the stream proper, which must then be handled as by a new connection
    let mut whole = prelude.to_vec();
    whole.extend_from_slice(stream);
    let base = prelude.len();
    let late = LATE_LIMIT_AT.with(|c| c.take()).filter(|k| *k > 0 && *k < base && limit.is_some());
    let mut run = ConnRun::new(whole, if late.is_some() { None } else { limit }, check_100);
    let mut info = RunInfo::default();
    if let Some(k) = late {
        let st = match run.read(ReadEv::Data { want: k, fds: vec![] }) {
            Ok(s) => s.clone(),
            Err(m) => return Err(("stream-misuse".into(), m)),
        };
        if st.got != k || st.res != RRes::Ok {
            return Err(("harness-prelude".into(), format!("first {} bytes of the prelude: took {} bytes, result {:?}", k, st.got, st.res)));
        }
        run.conn.set_payload_max_size(limit.unwrap());
        info.label("limit_configured_while_a_request_is_in_flight");
    }
    if base > 0 {
        let rest = base - late.unwrap_or(0);
        let st = match run.read(ReadEv::Data { want: rest, fds: vec![] }) {
            Ok(s) => s.clone(),
            Err(m) => return Err(("stream-misuse".into(), m)),
        };
        if st.got != rest || !matches!(st.res, RRes::Parse(_, _)) {
            return Err(("harness-prelude".into(), format!("prelude of {} bytes: took {} bytes, result {:?}", base, st.got, st.res)));
        }
        info.label("after_a_parse_error");
    }
    let mut next_req = 0usize; // index into reqs of the next expected delivery
    let mut out_all: Vec<u8> = Vec::new();
    let mut nreads = 0;
    let mut window = b_expected;
    let mut prev_fault_midline = false;
    loop {
        if run.remaining() == 0 || nreads >= max_reads {
            break;
        }
        let ev = sched(run.consumed - base, stream.len(), window);
        nreads += 1;
        let consumed_before = run.consumed - base;
        let step = match run.read(ev.clone()) {
            Ok(s) => s.clone(),
            Err(m) => return Err(("stream-misuse".into(), m)),
        };
        if step.recv_calls > 1 {
            // "at most one receive per call" (a call that performs none just makes no progress)
            return Err(("recv-count".into(), format!("try_read performed {} receives", step.recv_calls)));
        }
        if step.iov_len != 0 {
            if nreads == 1 && base == 0 && step.iov_len != b_expected {
                return Err(("harness-window".into(), format!("first receive window {} != expected {}", step.iov_len, b_expected)));
            }
            window = step.iov_len;
        }
        if let RRes::Panic(m) = &step.res {
            return Err(("panic".into(), format!("try_read panicked: {}", m)));
        }
        info.reads_desc.push(match &ev {
            ReadEv::Data { .. } => step.got as i64,
            ReadEv::Eagain => -1,
            ReadEv::Eintr => -2,
            ReadEv::Eof { .. } => -3,
            ReadEv::Errno(_) => -4,
        });
        let c = run.consumed - base;
        match &ev {
            ReadEv::Eagain | ReadEv::Eintr | ReadEv::Errno(_) => {
                let want = match &ev {
                    ReadEv::Eagain => libc::EAGAIN,
                    ReadEv::Eintr => libc::EINTR,
                    ReadEv::Errno(e) => *e,
                    _ => 0,
                };
                // what a read without data returns to its caller is not promised (today: a stream
                // read error carrying the errno; "nothing happened" would do as well); it must not
                // be a parse error, a closure or anything else that makes the owner act
                let _ = want;
                if !matches!(step.res, RRes::ReadErr(_) | RRes::Ok) {
                    return Err(("empty-read-result".into(), format!("read returning errno {} gave {:?}", want, step.res)));
                }
                if !step.reqs.is_empty() || !step.out.is_empty() {
                    return Err(("empty-read-effect".into(), "a read without data delivered requests or output".into()));
                }
                // label: would-block between two halves of a line
                if c > 0 && c < stream.len() && stream[c - 1] != b'\n' {
                    prev_fault_midline = true;
                }
                info.transcript.push((vec![], None));
                continue;
            }
            ReadEv::Eof { .. } => {
                if step.res != RRes::Closed {
                    return Err(("eof-result".into(), format!("zero-byte read gave {:?}", step.res)));
                }
                if !step.reqs.is_empty() {
                    return Err(("eof-effect".into(), "zero-byte read delivered requests".into()));
                }
                break;
            }
            ReadEv::Data { .. } => {}
        }
        if step.got == 0 {
            // nothing left to give: the scripted stream reported would-block
            continue;
        }
        info.data_reads += 1;
        if prev_fault_midline {
            info.label("fault_between_line_halves");
            prev_fault_midline = false;
        }
        // ---- labels from the cut position
        if c < stream.len() && c > 0 {
            if stream[c - 1] == b'\r' && stream[c] == b'\n' {
                info.label("cut_in_CR|LF");
                info.cut_inside_element = true;
            }
            if c >= 2 && c + 1 < stream.len() && &stream[c - 2..c] == b"\r\n" && &stream[c..c + 2] == b"\r\n" {
                info.label("cut_in_CRLF|CRLF");
                info.cut_inside_element = true;
            }
            if stream[c - 1] != b'\n' {
                info.cut_inside_element = true;
            }
        }
        if step.got == step.iov_len {
            info.label("window_filled");
            if stream[c - 1] == b'\r' {
                info.label("CR_at_last_window_byte");
            }
        }
        if step.iov_len < b_expected {
            info.label("partial_line_carried");
        }
        if step.reqs.len() >= 2 {
            info.label("pipelined_2_in_one_read");
        }
        for r in reqs.iter() {
            if r.complete_at == c && r.body.is_some() && c < stream.len() {
                info.label("cut_at_body_end");
            }
            if r.headers_done_at == c && c < stream.len() {
                info.label("cut_at_header_end");
            }
        }
        // ---- expected deliveries
        let mut exp: Vec<&RefRequest> = Vec::new();
        while next_req < reqs.len() && reqs[next_req].complete_at <= c {
            exp.push(&reqs[next_req]);
            next_req += 1;
        }
        if step.reqs.len() != exp.len() {
            return Err((
                "delivery-count".into(),
                format!(
                    "after consuming {} bytes (this read {}..{}): delivered {} request(s), REF says {} complete",
                    c, consumed_before, c, step.reqs.len(), exp.len()
                ),
            ));
        }
        for (d, r) in step.reqs.iter().zip(exp.iter()) {
            if let Some(m) = diff_delivered(d, r) {
                return Err(("delivery-content".into(), format!("request starting at offset {}: {}", r.start, m)));
            }
            if r.body.as_ref().map(|b| b.len() > b_expected).unwrap_or(false) {
                info.label("body_spans_windows");
            }
        }
        info.delivered += step.reqs.len();
        // ---- expected error
        let exp_err = match end {
            End::Error { err, point, .. } if *point <= c => Some(err),
            _ => None,
        };
        let got_kind = match &step.res {
            RRes::Parse(k, _) => Some(k.clone()),
            _ => None,
        };
        info.transcript.push((step.reqs.clone(), got_kind.clone()));
        match (&step.res, exp_err) {
            (RRes::Ok, None) => {}
            (RRes::Parse(k, dbg), Some(e)) => {
                if !err_matches(k, e) {
                    return Err(("error-kind".into(), format!("reported {} where REF finds {:?}", dbg, e)));
                }
                info.error = Some(step.res.clone());
                info.ended_by_error = true;
            }
            (RRes::Parse(_, dbg), None) => {
                return Err(("spurious-error".into(), format!("reported {} after {} bytes; REF sees no fault decidable there ({:?})", dbg, c, end)));
            }
            (RRes::Ok, Some(e)) => {
                return Err(("missed-error".into(), format!("no error after {} bytes; REF: {:?} decidable", c, e)));
            }
            (other, _) => {
                return Err(("read-result".into(), format!("data read gave {:?}", other)));
            }
        }
        // ---- interim responses (C13)
        if check_100 {
            out_all.extend_from_slice(&step.out);
            let want100: Vec<u8> = reqs
                .iter()
                .filter(|r| r.wants_continue && r.headers_done_at <= c)
                .map(|r| r.version)
                .collect();
            let (resps, rend) = rr_parse(&out_all);
            if rend != RrEnd::Clean {
                return Err(("interim-garbage".into(), format!("output after {} bytes does not parse as responses: {:?} / {}", c, rend, esc(&out_all))));
            }
            let got100: Vec<u8> = resps.iter().map(|r| r.version).collect();
            for r in &resps {
                if r.code != 100 || !r.body.is_empty() || r.header("Content-Length").is_some() {
                    return Err(("interim-kind".into(), format!("connection queued a non-100 / non-empty response on its own: {:?}", r)));
                }
            }
            if got100 != want100 {
                return Err((
                    "interim-count".into(),
                    format!("after {} bytes: interim responses (by version) {:?}, expected {:?}", c, got100, want100),
                ));
            }
        }
        if info.ended_by_error {
            break;
        }
    }
    // pending request with 100-continue but body not supplied
    info.out = out_all;
    Ok(info)
}
