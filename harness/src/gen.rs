//! Generators: request grammar (G-REQ), single-point corruptions (G-CORRUPT), pipelined
//! streams (G-STREAM), length targeting around the receive window (G-ALIGN) and read
//! schedules (G-SCHED). Everything is decoded from a `Src`, byte 0 = simplest choice.

use crate::src::{filler, Src};
use crate::stream::ReadEv;

#[derive(Clone, Debug)]
pub struct GenCfg {
    /// line limit / receive window of the build under test
    pub b: usize,
    /// payload limit in force
    pub limit: usize,
    /// allow corruptions (otherwise only well-formed requests)
    pub corrupt: u32, // chance /256 per corruptible element
    pub max_reqs: usize,
    /// allow lines/bodies around and above the window
    pub big: bool,
    /// probability of an Expect line (per request, /256)
    pub expect: u32,
    /// never generate a body larger than this
    pub max_body: usize,
    /// construct only requests that parse without error (no over-limit lengths, no over-long lines)
    pub error_free: bool,
}

impl GenCfg {
    pub fn new(b: usize, limit: usize) -> GenCfg {
        GenCfg { b, limit, corrupt: 10, max_reqs: 5, big: true, expect: 40, max_body: 70000, error_free: false }
    }
}

#[derive(Default, Clone, Debug)]
pub struct Notes(pub Vec<&'static str>);
impl Notes {
    pub fn add(&mut self, s: &'static str) {
        if !self.0.contains(&s) {
            self.0.push(s);
        }
    }
}

const NAMES: [&str; 7] =
    ["Content-Length", "Content-Type", "Expect", "Transfer-Encoding", "Server", "Accept", "Accept-Encoding"];

pub fn style_name(s: &mut Src, name: &str) -> String {
    let mut n: String = match s.weighted(&[10, 3, 3, 3]) {
        0 => name.to_string(),
        1 => name.to_ascii_lowercase(),
        2 => name.to_ascii_uppercase(),
        _ => {
            // per-letter flips decided by drawn bits
            let bits = s.u32();
            name.chars()
                .enumerate()
                .map(|(i, c)| {
                    if (bits >> (i % 32)) & 1 == 1 {
                        if c.is_ascii_lowercase() { c.to_ascii_uppercase() } else { c.to_ascii_lowercase() }
                    } else {
                        c
                    }
                })
                .collect()
        }
    };
    // padding around the name
    const PADS: [&str; 6] = ["", " ", "\t", "\u{a0}", "\u{3000}", "  "];
    if s.chance(24) {
        let p = PADS[s.below(PADS.len())];
        n = format!("{}{}", p, n);
    }
    if s.chance(24) {
        let p = PADS[s.below(PADS.len())];
        n = format!("{}{}", n, p);
    }
    n
}

pub fn style_value(s: &mut Src, v: &str) -> String {
    const PADS: [&str; 7] = [" ", "", "  ", "\t", " \u{a0}", "\u{3000}", "\r"];
    let l = PADS[s.weighted(&[20, 4, 2, 2, 1, 1])];
    let r = if s.chance(24) { PADS[s.below(PADS.len())] } else { "" };
    format!("{}{}{}", l, v, r)
}

/// Characters whose Unicode case mappings change their UTF-8 length (or turn into ASCII): code that
/// computes offsets on a case-mapped copy and applies them to the original goes wrong on them.
pub const CASE_HAZARDS: [&str; 10] = ["\u{212a}", "\u{130}", "\u{23a}", "\u{1e9e}", "\u{df}", "\u{1c5}", "\u{fb01}", "\u{390}", "\u{17f}", "\u{2126}"];

/// 1..3 such characters inserted at drawn character boundaries of a value (start and the place in
/// front of the last comma preferred)
pub fn hazard_value(s: &mut Src, v: &str) -> String {
    let mut out = v.to_string();
    for _ in 0..s.range(1, 3) {
        let bounds: Vec<usize> = (0..=out.len()).filter(|i| out.is_char_boundary(*i)).collect();
        let at = match s.weighted(&[4, 3, 3]) {
            0 => 0,
            1 => out.rfind(',').unwrap_or(0),
            _ => bounds[s.below(bounds.len())],
        };
        out.insert_str(at, CASE_HAZARDS[s.below(CASE_HAZARDS.len())]);
    }
    out
}

/// a comma-separated list of items with optional parameters/weights (Accept, Accept-Encoding, ...)
pub fn weighted_list(s: &mut Src, items: &[&str], benign_only: bool) -> String {
    const PARAMS: [&str; 12] = ["", ";q=0.5", "; q=0.5", ";q=1.0", ";q=0", "; q=0", ";q=nan", ";q=inf", ";q=-1", ";q=1e99", ";q=", ";level=1"];
    let n = s.range(1, 4);
    let mut v = String::new();
    for i in 0..n {
        if i > 0 {
            v.push_str([", ", ",", " , "][s.weighted(&[6, 2, 1])]);
        }
        v.push_str(items[s.below(items.len())]);
        let pi = if benign_only { s.weighted(&[10, 3, 2, 2]) } else { s.weighted(&[10, 3, 2, 2, 2, 1, 1, 1, 1, 1, 1, 1]) };
        v.push_str(PARAMS[pi]);
    }
    v
}

fn header_line(s: &mut Src, cfg: &GenCfg, notes: &mut Notes, out: &mut Vec<u8>) {
    let kind = s.weighted(&[10, 5, 5, 5, 3, 4, 6, 3]);
    let (name, value): (String, String) = match kind {
        0 => {
            // (names and values a parser might be tempted to treat specially, among others)
            let names = ["X-A", "X-B", "Host", "x-a", "User-Agent", "Content-Lengt", "Expect2", "\u{212a}eep", "Connection", "Keep-Alive", "Upgrade", "TE", "Trailer", "Content-Encoding", "Range", "Authorization", "Cookie"];
            let vals = ["v", "localhost", "a: b", "", "curl/7.0", "100-continue", "5", "close", "keep-alive", "Close", "chunked", "timeout=5", "h2c", "\"", "\"q\"", "bytes=0-"];
            (names[s.below(names.len())].to_string(), vals[s.below(vals.len())].to_string())
        }
        1 => {
            let v = ["application/json", "text/plain", "text/html", "Application/JSON", ""];
            ("Content-Type".into(), v[s.weighted(&[8, 4, 2, 1, 1])].to_string())
        }
        2 => {
            if s.chance(50) {
                notes.add("hdr_accept_list");
                ("Accept".into(), weighted_list(s, &["text/plain", "application/json", "*/*", "text/html"], false))
            } else {
                let v = ["application/json", "text/plain", "*/*", "text/plain, application/json", ""];
                ("Accept".into(), v[s.weighted(&[6, 6, 2, 1, 1])].to_string())
            }
        }
        3 => {
            let v = ["chunked", "identity", "gzip", "Chunked", "", "gzip, br", "chunked,", ", x", "\u{212a}, gzip", "\u{130}\u{130},"];
            ("Transfer-Encoding".into(), v[s.weighted(&[16, 8, 4, 2, 2, 1, 1, 1, 1, 1])].to_string())
        }
        4 => ("Server".into(), "whatever".into()),
        5 => {
            let v = ["gzip", "identity", "gzip, deflate", "*", "identity;q=0", "*;q=0", "*;q=0, identity", "", "gzip , identity;q=0"];
            if s.chance(70) {
                notes.add("hdr_accept_encoding_list");
                // identity may be excluded by the list only when corruptions are allowed
                let items: &[&str] = if cfg.corrupt > 0 && !cfg.error_free { &["gzip", "identity", "*", "deflate"] } else { &["gzip", "deflate", "br"] };
                ("Accept-Encoding".into(), weighted_list(s, items, cfg.error_free))
            } else {
                let i = if cfg.corrupt > 0 && !cfg.error_free { s.weighted(&[10, 4, 3, 2, 1, 1, 1, 1, 1]) } else { s.weighted(&[10, 4, 3, 2]) };
                if i >= 4 {
                    notes.add("hdr_accept_encoding_edge");
                }
                ("Accept-Encoding".into(), v[i].to_string())
            }
        }
        6 => {
            // pad header: total line length (incl CRLF) targeted around the window
            let target = if cfg.big && s.chance(100) {
                let d = s.range(0, 12);
                let t = (cfg.b + 4).saturating_sub(d); // b-8 ..= b+4
                if cfg.error_free { t.min(cfg.b) } else { t }
            } else {
                s.range(8, cfg.b.min(200))
            };
            let fixed = "X-Pad: ".len() + 2;
            let n = target.saturating_sub(fixed);
            notes.add("hdr_pad");
            ("X-Pad".into(), "p".repeat(n))
        }
        _ => {
            if cfg.corrupt == 0 || !s.chance(cfg.corrupt * 4) {
                ("X-C".into(), "d".into())
            } else {
                // malformed line, written raw
                let raw: &[u8] = match s.below(8) {
                    0 => b"no colon here",
                    5 => b" ",
                    6 => b"\t \t",
                    7 => b"\xe3\x80\x80\xc2\xa0",
                    1 => b"X-Bad: \xff\xfe",
                    2 => b"\xc3: x",
                    3 => b"X-CR: a\rb",
                    _ => b"X-LF: a\nb",
                };
                notes.add("hdr_malformed");
                out.extend_from_slice(raw);
                out.extend_from_slice(b"\r\n");
                return;
            }
        }
    };
    // now and then the value of a field with tolerated values carries case-mapping hazards
    let value = if (kind <= 3 || (kind == 5 && !cfg.error_free && cfg.corrupt > 0)) && s.chance(14) {
        notes.add("hdr_case_hazard");
        hazard_value(s, &value)
    } else {
        value
    };
    let name = if (1..=5).contains(&kind) { style_name(s, &name) } else { name };
    let value = if kind == 6 { format!(" {}", value) } else { style_value(s, &value) };
    out.extend_from_slice(name.as_bytes());
    out.push(b':');
    out.extend_from_slice(value.as_bytes());
    out.extend_from_slice(b"\r\n");
}

/// Emit one request. Returns the number of body bytes the generator believes it declared.
pub fn gen_request(s: &mut Src, cfg: &GenCfg, notes: &mut Notes, out: &mut Vec<u8>) {
    let b = cfg.b;
    // ---- request line
    let mut method: Vec<u8> = [&b"GET"[..], b"PUT", b"PATCH"][s.below(3)].to_vec();
    let is_get = method == b"GET";
    if s.chance(cfg.corrupt) {
        let alts: [&[u8]; 7] = [b"get", b"", b"POST", b"GETX", b"Put", b"\0GET", b"PATCH\r"];
        method = alts[s.below(alts.len())].to_vec();
        notes.add("c_method");
    }
    let mut uri: Vec<u8> = match s.weighted(&[10, 8, 5, 3, if cfg.big { 5 } else { 0 }, 2]) {
        0 => b"/".to_vec(),
        1 => {
            let segs = ["/a", "/machine-config", "/b/c", "/actions", "/x%20y", "/:", "//"];
            let mut u = Vec::new();
            for _ in 0..s.range(1, 3) {
                u.extend_from_slice(segs[s.below(segs.len())].as_bytes());
            }
            u
        }
        2 => {
            let v = ["http://localhost/home", "http://h", "http://h:80/", "http:///x", "https://h/x", "HTTP://h/x"];
            v[s.below(v.len())].as_bytes().to_vec()
        }
        3 => "/\u{e9}\u{fc}/\u{4e2d}".as_bytes().to_vec(),
        4 => {
            // long URI: request line length targeted around the window
            let d = s.range(0, 12);
            let mut target = (b + 4).saturating_sub(d);
            if cfg.error_free {
                target = target.min(b);
            }
            let fixed = method.len() + 1 + 1 + 8 + 2;
            notes.add("uri_long");
            let mut u = vec![b'/'];
            u.resize(target.saturating_sub(fixed).max(1), b'u');
            u
        }
        _ => [&b"*"[..], b"x", b"a/b"][s.below(3)].to_vec(),
    };
    if s.chance(cfg.corrupt) {
        let alts: [&[u8]; 4] = [b"", b"\xff\xfe", b"/a b", b"/\xc3"];
        uri = alts[s.below(alts.len())].to_vec();
        notes.add("c_uri");
    }
    let mut version: Vec<u8> = if s.chance(90) { b"HTTP/1.0".to_vec() } else { b"HTTP/1.1".to_vec() };
    if s.chance(cfg.corrupt) {
        let alts: [&[u8]; 6] = [b"HTTP/1.2", b"http/1.1", b"HTTP/1.1 ", b"HTTP/2", b"", b"HTTP/1.1\r"];
        version = alts[s.below(alts.len())].to_vec();
        notes.add("c_version");
    }
    let (sp1, sp2): (&[u8], &[u8]) = if s.chance(cfg.corrupt) {
        notes.add("c_sp");
        match s.below(5) {
            0 => (b"", b" "),
            1 => (b" ", b""),
            2 => (b"  ", b" "),
            3 => (b" ", b"  "),
            _ => (b"\t", b" "),
        }
    } else {
        (b" ", b" ")
    };
    out.extend_from_slice(&method);
    out.extend_from_slice(sp1);
    out.extend_from_slice(&uri);
    out.extend_from_slice(sp2);
    out.extend_from_slice(&version);
    if s.chance(cfg.corrupt) {
        notes.add("c_eol");
        let alts: [&[u8]; 4] = [b"\n", b"\r", b"\r\r\n", b"\n\r"];
        out.extend_from_slice(alts[s.below(alts.len())]);
    } else {
        out.extend_from_slice(b"\r\n");
    }

    // ---- content length decision
    // kinds: 0 absent, 1 zero, 2 small, 3 around window, 4 up to 3 windows, 5 near limit, 6 edge spelling
    let clk = if is_get && !s.chance(60) {
        0
    } else {
        s.weighted(&[6, 3, 12, if cfg.big { 5 } else { 0 }, if cfg.big { 4 } else { 0 }, if cfg.error_free { 0 } else { 4 }, if cfg.corrupt > 0 && !cfg.error_free { 3 } else { 0 }])
    };
    let mut declared: usize = 0;
    let cl_text: Option<String> = match clk {
        0 => None,
        1 => Some("0".into()),
        2 => {
            declared = s.range(1, 40);
            Some(declared.to_string())
        }
        3 => {
            declared = (b + 3).saturating_sub(s.range(0, 6)).max(1);
            Some(declared.to_string())
        }
        4 => {
            declared = s.range(b / 2, 3 * b);
            Some(declared.to_string())
        }
        5 => {
            let d = s.range(0, 2);
            declared = (cfg.limit as u64).saturating_add(1).saturating_sub(d as u64).min(u32::MAX as u64) as usize;
            notes.add("cl_near_limit");
            Some(declared.to_string())
        }
        _ => {
            notes.add("cl_edge");
            let (t, d): (&str, usize) = match s.below(12) {
                9 => ("00000000005", 5),
                10 => ("+0000000009", 9),
                11 => ("0000000000000000000012", 12),
                0 => ("007", 7),
                1 => ("+5", 5),
                2 => ("4294967295", 4294967295),
                3 => ("4294967296", 0),
                4 => ("-1", 0),
                5 => ("", 0),
                6 => ("1 2", 0),
                7 => ("\u{ff15}", 0),
                _ => ("0x10", 0),
            };
            declared = d;
            Some(t.to_string())
        }
    };
    let want_expect = s.chance(cfg.expect);
    // mostly 0..5 further lines; now and then a head of several windows (60..260 lines)
    let nlines = if cfg.big && s.chance(5) {
        notes.add("head_of_many_lines");
        s.range(60, 260)
    } else {
        s.below(6)
    };
    let cl_pos = s.below(nlines + 1);
    let ex_pos = s.below(nlines + 1);
    for i in 0..=nlines {
        if i == cl_pos {
            if let Some(t) = &cl_text {
                let name = style_name(s, NAMES[0]);
                let v = style_value(s, t);
                out.extend_from_slice(name.as_bytes());
                out.push(b':');
                out.extend_from_slice(v.as_bytes());
                out.extend_from_slice(b"\r\n");
                // duplicate Content-Length (last acceptable wins)
                if s.chance(8) {
                    notes.add("cl_dup");
                    let d2 = s.range(0, 9);
                    out.extend_from_slice(format!("Content-Length: {}\r\n", d2).as_bytes());
                    declared = d2;
                }
            }
        }
        if i == ex_pos && want_expect {
            let v = ["100-continue", "100-Continue", "103-checkpoint", ""];
            let name = style_name(s, "Expect");
            let vi = s.weighted(&[12, 2, 2, 1]);
            let val = style_value(s, v[vi]);
            notes.add("expect_line");
            out.extend_from_slice(name.as_bytes());
            out.push(b':');
            out.extend_from_slice(val.as_bytes());
            out.extend_from_slice(b"\r\n");
            if s.chance(20) {
                // a second Expect line (the flag is set if ANY occurrence asks for it)
                notes.add("expect_dup");
                let v2 = ["103-checkpoint", "100-continue", "102-processing"][s.below(3)];
                out.extend_from_slice(format!("Expect: {}\r\n", v2).as_bytes());
            }
        }
        if i < nlines {
            if nlines >= 60 && s.chance(170) {
                // many DISTINCT unrecognised names
                out.extend_from_slice(format!("X-N{}: {}\r\n", i, i).as_bytes());
            } else {
                header_line(s, cfg, notes, out);
            }
        }
    }
    if s.chance(cfg.corrupt / 2) {
        notes.add("c_noblank");
        // header terminator damaged
        out.extend_from_slice([&b"\n"[..], b"\r", b"\r\n\r"][s.below(3)]);
    } else {
        out.extend_from_slice(b"\r\n");
    }
    // ---- body
    if declared > 0 {
        let supplied = if declared > cfg.max_body {
            0
        } else if s.chance(cfg.corrupt) {
            notes.add("c_bodylen");
            // fewer or more bytes than declared
            if s.chance(128) { declared.saturating_sub(s.range(1, 3)) } else { declared + s.range(1, 3) }
        } else {
            declared
        };
        let kind = s.weighted(&[6, 4, 4, 1, 1]);
        let seed = s.u8();
        out.extend_from_slice(&filler(kind, seed, supplied));
        if kind == 2 {
            notes.add("body_crlf_rich");
        }
    }
}

/// 1..max pipelined requests; optional truncation and trailing bytes.
pub fn gen_stream(s: &mut Src, cfg: &GenCfg) -> (Vec<u8>, Notes) {
    let mut notes = Notes::default();
    let mut out = Vec::new();
    let n = 1 + s.weighted_n(cfg.max_reqs);
    if cfg.big && s.chance(6) {
        // a burst of very small requests: dozens complete within one read
        notes.add("burst_of_tiny_requests");
        let k = s.range(17, 70);
        for i in 0..k {
            if s.chance(40) {
                out.extend_from_slice(format!("PUT /{} HTTP/1.1\r\nContent-Length: 1\r\n\r\nz", i).as_bytes());
            } else {
                out.extend_from_slice(format!("GET /{} HTTP/1.{}\r\n\r\n", i, i % 2).as_bytes());
            }
        }
    }
    for _ in 0..n {
        gen_request(s, cfg, &mut notes, &mut out);
        if out.len() > 300_000 {
            break;
        }
    }
    if s.chance(30) {
        notes.add("truncated");
        let cut = s.below(out.len() + 1);
        out.truncate(cut);
    } else if s.chance(16) {
        notes.add("trailing");
        let t: [&[u8]; 5] = [b"\r\n", b"GET ", b"\r", b"garbage\r\n", b"PUT / HTTP/1.1\r\nContent-Length: 3\r\n\r\nab"];
        out.extend_from_slice(t[s.below(t.len())]);
    }
    (out, notes)
}

impl<'a> Src<'a> {
    /// 0..n-1 with a bias to small values
    pub fn weighted_n(&mut self, n: usize) -> usize {
        if n <= 1 {
            return 0;
        }
        let x = self.u8() as usize;
        // half of the mass on 0, then geometric-ish
        if x < 110 {
            0
        } else {
            1 + ((x - 110) * (n - 1)) / 146
        }
        .min(n - 1)
    }
}

// ---------------------------------------------------------------------------------------
// schedules

pub struct SchedCtx<'a> {
    pub consumed: usize,
    pub total: usize,
    pub window: usize,
    /// sorted interesting offsets (after every CR, after every LF, element ends)
    pub bounds: &'a [usize],
}

pub fn boundaries(stream: &[u8], extra: &[usize]) -> Vec<usize> {
    let mut v: Vec<usize> = Vec::new();
    for (i, &c) in stream.iter().enumerate() {
        if c == b'\r' || c == b'\n' {
            v.push(i + 1);
        }
    }
    v.extend_from_slice(extra);
    v.sort_unstable();
    v.dedup();
    v
}

fn next_bound(ctx: &SchedCtx) -> usize {
    match ctx.bounds.binary_search(&(ctx.consumed + 1)) {
        Ok(i) => ctx.bounds[i],
        Err(i) => ctx.bounds.get(i).copied().unwrap_or(ctx.total),
    }
}

/// One read event. `faults` = chance/256 of a would-block / interrupted read.
pub fn next_read(s: &mut Src, ctx: &SchedCtx, faults: u32) -> ReadEv {
    if s.chance(faults) {
        return if s.chance(128) { ReadEv::Eintr } else { ReadEv::Eagain };
    }
    let rem = ctx.total - ctx.consumed;
    let want = match s.weighted(&[30, 20, 8, 8, 10, 5, 10, 10]) {
        0 => ctx.window.max(1),
        1 => next_bound(ctx) - ctx.consumed,
        2 => (next_bound(ctx) - ctx.consumed).saturating_sub(1),
        3 => next_bound(ctx) - ctx.consumed + 1,
        4 => 1,
        5 => 2,
        6 => s.range(1, 16),
        _ => s.range(1, 200),
    };
    ReadEv::Data { want: want.max(1).min(rem.max(1)), fds: vec![] }
}
