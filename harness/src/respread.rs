//! RR: independent response reader (parses what a keep-alive client would see) and
//! SM: byte-exact serialisation model of a `Response` built through the public API.

#[derive(Clone, Debug, PartialEq, Eq)]
pub struct Resp {
    pub version: u8, // 0 = HTTP/1.0, 1 = HTTP/1.1
    pub code: u16,
    pub headers: Vec<(String, String)>,
    pub body: Vec<u8>,
    /// total bytes of this response in the buffer
    pub len: usize,
}

impl Resp {
    pub fn header(&self, name: &str) -> Option<&str> {
        self.headers
            .iter()
            .find(|(k, _)| k.eq_ignore_ascii_case(name))
            .map(|(_, v)| v.as_str())
    }
}

#[derive(Clone, Debug, PartialEq, Eq)]
pub enum RrEnd {
    /// buffer ended exactly at a response boundary
    Clean,
    /// a proper prefix of a response remains (offset where it starts)
    Partial(usize),
    /// bytes at this offset cannot begin / continue a response
    Garbage(usize, String),
}

fn find_crlf(b: &[u8], from: usize) -> Option<usize> {
    let mut i = from;
    while i + 1 < b.len() {
        if b[i] == b'\r' && b[i + 1] == b'\n' {
            return Some(i);
        }
        i += 1;
    }
    None
}

/// Could `b` be a proper prefix of a status line "HTTP/1.x DDD..."?
fn plausible_status_prefix(b: &[u8]) -> bool {
    let pat = b"HTTP/1.";
    let n = b.len().min(pat.len());
    if b[..n] != pat[..n] {
        return false;
    }
    if b.len() > 7 && !(b[7] == b'0' || b[7] == b'1') {
        return false;
    }
    if b.len() > 8 && b[8] != b' ' {
        return false;
    }
    for i in 9..b.len().min(12) {
        if !b[i].is_ascii_digit() {
            return false;
        }
    }
    true
}

/// Parse as many complete responses as the buffer holds.
pub fn rr_parse(buf: &[u8]) -> (Vec<Resp>, RrEnd) {
    let mut out = Vec::new();
    let mut pos = 0;
    while pos < buf.len() {
        let start = pos;
        // status line
        let e = match find_crlf(buf, pos) {
            Some(e) => e,
            None => {
                // partial status line: must at least look like one
                let tail = &buf[pos..];
                // only judge the first 12 bytes; later bytes are the reason phrase
                if plausible_status_prefix(&tail[..tail.len().min(12)]) && tail.len() < 64 {
                    return (out, RrEnd::Partial(start));
                }
                return (out, RrEnd::Garbage(start, "no status line".into()));
            }
        };
        let line = &buf[pos..e];
        if line.len() < 12 || !plausible_status_prefix(&line[..12]) {
            return (out, RrEnd::Garbage(start, format!("bad status line {:?}", String::from_utf8_lossy(line))));
        }
        if line.len() > 12 && line[12] != b' ' {
            return (out, RrEnd::Garbage(start, "status code not followed by SP".into()));
        }
        let version = line[7] - b'0';
        let code = (line[9] - b'0') as u16 * 100 + (line[10] - b'0') as u16 * 10 + (line[11] - b'0') as u16;
        pos = e + 2;
        // headers
        let mut headers = Vec::new();
        let mut clen: Option<usize> = None;
        loop {
            let e = match find_crlf(buf, pos) {
                Some(e) => e,
                None => return (out, RrEnd::Partial(start)),
            };
            let line = &buf[pos..e];
            pos = e + 2;
            if line.is_empty() {
                break;
            }
            let text = match std::str::from_utf8(line) {
                Ok(t) => t,
                Err(_) => return (out, RrEnd::Garbage(start, "non-utf8 header".into())),
            };
            let (k, v) = match text.find(": ") {
                Some(i) => (&text[..i], &text[i + 2..]),
                None => return (out, RrEnd::Garbage(start, format!("header without ': ' {:?}", text))),
            };
            if k.eq_ignore_ascii_case("content-length") {
                match v.parse::<usize>() {
                    Ok(n) => {
                        if clen.is_some() {
                            return (out, RrEnd::Garbage(start, "duplicate content-length".into()));
                        }
                        clen = Some(n)
                    }
                    Err(_) => return (out, RrEnd::Garbage(start, format!("bad content-length {:?}", v))),
                }
            }
            headers.push((k.to_string(), v.to_string()));
        }
        let n = clen.unwrap_or(0);
        if buf.len() < pos + n {
            return (out, RrEnd::Partial(start));
        }
        let body = buf[pos..pos + n].to_vec();
        pos += n;
        out.push(Resp { version, code, headers, body, len: pos - start });
    }
    (out, RrEnd::Clean)
}

// ---------------------------------------------------------------------------------------
// SM

#[derive(Clone, Debug, PartialEq, Eq)]
pub enum Call {
    SetBody(Vec<u8>),
    SetContentType(u8), // 0 plain 1 json
    SetDeprecation,
    SetEncoding,
    SetServer(String),
    SetAllow(Vec<u8>), // methods 0..3
    AllowMethod(u8),
    SetContentLength(Option<i32>),
}

pub const STATUS: [(u16, &str); 11] = [
    (100, "Continue"),
    (200, "OK"),
    (204, "NoContent"),
    (400, "BadRequest"),
    (401, "Unauthorized"),
    (404, "NotFound"),
    (405, "MethodNotAllowed"),
    (413, "PayloadTooLarge"),
    (500, "InternalServerError"),
    (501, "NotImplemented"),
    (503, "ServiceUnavailable"),
];

#[derive(Clone, Debug)]
pub struct Model {
    pub version: u8,
    pub code: u16,
    pub server: String,
    pub allow: Vec<u8>,
    pub deprecation: bool,
    pub ctype: u8,
    pub clen: Option<i64>,
    pub encoding: bool,
    pub body: Option<Vec<u8>>,
}

impl Model {
    pub fn new(version: u8, code: u16) -> Model {
        Model {
            version,
            code,
            server: "Firecracker API".to_string(),
            allow: vec![],
            deprecation: false,
            ctype: 1,
            clen: if code == 100 || code == 204 { None } else { Some(0) },
            encoding: false,
            body: None,
        }
    }
    pub fn apply(&mut self, c: &Call) {
        match c {
            Call::SetBody(b) => {
                self.clen = Some(b.len() as i64);
                self.body = Some(b.clone());
            }
            Call::SetContentType(t) => self.ctype = *t,
            Call::SetDeprecation => self.deprecation = true,
            Call::SetEncoding => self.encoding = true,
            Call::SetServer(s) => self.server = s.clone(),
            Call::SetAllow(v) => self.allow = v.clone(),
            Call::AllowMethod(m) => self.allow.push(*m),
            Call::SetContentLength(n) => self.clen = n.map(|x| x as i64),
        }
    }
    pub fn bytes(&self) -> Vec<u8> {
        let mut o = Vec::new();
        o.extend_from_slice(if self.version == 0 { b"HTTP/1.0" } else { b"HTTP/1.1" });
        o.push(b' ');
        o.extend_from_slice(format!("{:03}", self.code).as_bytes());
        o.extend_from_slice(b" \r\n");
        o.extend_from_slice(b"Server: ");
        o.extend_from_slice(self.server.as_bytes());
        o.extend_from_slice(b"\r\n");
        o.extend_from_slice(b"Connection: keep-alive\r\n");
        if !self.allow.is_empty() {
            o.extend_from_slice(b"Allow: ");
            for (i, m) in self.allow.iter().enumerate() {
                if i > 0 {
                    o.extend_from_slice(b", ");
                }
                o.extend_from_slice(crate::refparse::METHODS[*m as usize]);
            }
            o.extend_from_slice(b"\r\n");
        }
        if self.deprecation {
            o.extend_from_slice(b"Deprecation: true\r\n");
        }
        if let Some(n) = self.clen {
            o.extend_from_slice(b"Content-Type: ");
            o.extend_from_slice(if self.ctype == 0 { b"text/plain" as &[u8] } else { b"application/json" });
            o.extend_from_slice(b"\r\n");
            o.extend_from_slice(format!("Content-Length: {}\r\n", n).as_bytes());
            if self.encoding {
                o.extend_from_slice(b"Accept-Encoding: identity\r\n");
            }
        }
        o.extend_from_slice(b"\r\n");
        if let Some(b) = &self.body {
            o.extend_from_slice(b);
        }
        o
    }
}

use micro_http::{Body, MediaType, Method, Response, StatusCode, Version};

pub fn status_of(code: u16) -> StatusCode {
    match code {
        100 => StatusCode::Continue,
        200 => StatusCode::OK,
        204 => StatusCode::NoContent,
        400 => StatusCode::BadRequest,
        401 => StatusCode::Unauthorized,
        404 => StatusCode::NotFound,
        405 => StatusCode::MethodNotAllowed,
        413 => StatusCode::PayloadTooLarge,
        500 => StatusCode::InternalServerError,
        501 => StatusCode::NotImplemented,
        503 => StatusCode::ServiceUnavailable,
        _ => panic!("harness: unknown status {}", code),
    }
}

pub fn method_of(m: u8) -> Method {
    match m {
        0 => Method::Get,
        1 => Method::Put,
        _ => Method::Patch,
    }
}

pub fn version_of(v: u8) -> Version {
    if v == 0 {
        Version::Http10
    } else {
        Version::Http11
    }
}

/// Build the real `Response` by replaying the same calls.
pub fn apply_real(r: &mut Response, c: &Call) {
    match c {
        Call::SetBody(b) => r.set_body(Body::new(b.clone())),
        Call::SetContentType(t) => r.set_content_type(if *t == 0 { MediaType::PlainText } else { MediaType::ApplicationJson }),
        Call::SetDeprecation => r.set_deprecation(),
        Call::SetEncoding => r.set_encoding(),
        Call::SetServer(s) => r.set_server(s),
        Call::SetAllow(v) => r.set_allow(v.iter().map(|m| method_of(*m)).collect()),
        Call::AllowMethod(m) => r.allow_method(method_of(*m)),
        Call::SetContentLength(n) => r.set_content_length(*n),
    }
}

/// Build the real `Response` by replaying the same calls.
pub fn build_real(version: u8, code: u16, calls: &[Call]) -> Response {
    let mut r = Response::new(version_of(version), status_of(code));
    for c in calls {
        apply_real(&mut r, c);
    }
    r
}

pub fn build_model(version: u8, code: u16, calls: &[Call]) -> Model {
    let mut m = Model::new(version, code);
    for c in calls {
        m.apply(c);
    }
    m
}
