#!/bin/bash
# offline build of everything the checks need (both harness variants)
set -e
cd "$(dirname "$0")"
export CARGO_NET_OFFLINE=true
mkdir -p .scratch
( cd harness && cargo build --release --offline --features hooks )
( cd harness && cargo build --release --offline --features smallbuf --target-dir target-smallbuf )
# libFuzzer targets (used by the thorough tiers only); a failure here is not fatal
( cd harness && cargo +nightly fuzz build -O 2>&1 | tail -2 ) || echo "fuzz targets not built (thorough tiers will skip campaigns)"
echo setup done
