#!/bin/bash
# offline build of everything the checks need (both harness variants)
set -e
cd "$(dirname "$0")"
export CARGO_NET_OFFLINE=true
mkdir -p .scratch
( cd harness && cargo build --release --offline --features hooks )
( cd harness && cargo build --release --offline --features smallbuf --target-dir target-smallbuf )
if [ -d fuzz ] && [ -f fuzz/Cargo.toml ]; then
  ( cd fuzz && cargo +nightly fuzz build -O 2>&1 | tail -3 ) || echo "fuzz targets not built (thorough tiers will skip campaigns)"
fi
echo setup done
